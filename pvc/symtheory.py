"""Theory of sympy symbols / names / expressions / environments and of symbolic dicts and sets.

Sorts
  Sym   sympy.Symbol            name : Sym -> Str
  Str   python str              ord  : Str -> Real   (order embedding of the lexicographic order: every
                                 countable total order embeds in the rationals, so assuming one is sound)
  Expr  sympy expression        ev   : Expr x Env -> Real  (value under an environment)
  Env   valuation               lookup : Env x Sym -> Real
  SymSet  finite set of Sym     member, card, srt (sorted-by-name enumeration), pos

Symbolic dicts are functions (has, get) plus an iteration-order sequence.
"""
from __future__ import annotations

import z3

from .interp import Builtin, BoundMethod, PyList, as_seq2
from .sym import PyRaise, SBool, SInt, SOpaque, SReal, SSeq, SV, Unsupported, subst, to_bool, to_int, to_real, wrap

Sym = z3.DeclareSort("Sym")
Str = z3.DeclareSort("Str")
Expr = z3.DeclareSort("Expr")
Env = z3.DeclareSort("Env")
name_f = z3.Function("name", Sym, Str)
ord_f = z3.Function("ord", Str, z3.RealSort())
ev_f = z3.Function("ev", Expr, Env, z3.RealSort())
lookup_f = z3.Function("lookup", Env, Sym, z3.RealSort())
diff_f = z3.Function("diff", Expr, Sym, Expr)
sym_expr = z3.Function("sym_expr", Sym, Expr)  # a Symbol used as an expression


def ord_injective(a, b):
    """ord is an order embedding: instance of injectivity for two strings."""
    return (ord_f(a) == ord_f(b)) == (a == b)


class SymV(SOpaque):
    """A sympy Symbol."""

    def __init__(self, z):
        super().__init__(z, "Sym")

    def pvc_getattr(self, I, attr):
        if attr == "name":
            return StrV(name_f(self.z))
        return NotImplemented

    def pvc_str(self, I):
        return StrV(name_f(self.z))

    def pvc_subst(self, pairs):
        return SymV(z3.substitute(self.z, *pairs))

    def pvc_merge(self, c, other):
        if isinstance(other, SymV):
            return SymV(z3.If(c, self.z, other.z))
        return NotImplemented


class StrV(SOpaque):
    """A python str of unknown content."""

    def __init__(self, z):
        super().__init__(z, "Str")

    def pvc_str(self, I):
        return self

    def pvc_subst(self, pairs):
        return StrV(z3.substitute(self.z, *pairs))

    def pvc_merge(self, c, other):
        if isinstance(other, StrV):
            return StrV(z3.If(c, self.z, other.z))
        return NotImplemented

    def pvc_compare(self, I, op, other, swapped):
        import ast

        if not isinstance(other, StrV):
            return NotImplemented
        a, b = (other, self) if swapped else (self, other)
        x, y = ord_f(a.z), ord_f(b.z)
        return wrap({ast.Lt: x < y, ast.LtE: x <= y, ast.Gt: x > y, ast.GtE: x >= y}[type(op)])


class ExprV(SOpaque):
    def __init__(self, z):
        super().__init__(z, "Expr")

    def pvc_subst(self, pairs):
        return ExprV(z3.substitute(self.z, *pairs))

    def pvc_merge(self, c, other):
        if isinstance(other, ExprV):
            return ExprV(z3.If(c, self.z, other.z))
        return NotImplemented


class SDictV(SV):
    """Symbolic dict with keys of one z3 sort and values of one z3 sort.

    has/get are z3 functions of the key; `keys` is the iteration order (SSeq of key terms) of
    symbolic length `n`, with the axioms (given to the solver as quantified facts, patterns on has/kkey):
        forall i in [0,n): has(kkey(i)) and pos(kkey(i)) = i
        forall k: has(k) -> 0 <= pos(k) < n and kkey(pos(k)) = k
    """

    pvc_type = "dict"

    def __init__(self, P, tag, key_sort, val_sort, key_wrap, val_wrap):
        self.tag = tag
        self.key_sort, self.val_sort = key_sort, val_sort
        self.key_wrap, self.val_wrap = key_wrap, val_wrap
        self.has = z3.Function(P.names.fresh(f"{tag}_has"), key_sort, z3.BoolSort())
        self.get = z3.Function(P.names.fresh(f"{tag}_get"), key_sort, val_sort)
        self.kkey = z3.Function(P.names.fresh(f"{tag}_key"), z3.IntSort(), key_sort)
        self.pos = z3.Function(P.names.fresh(f"{tag}_pos"), key_sort, z3.IntSort())
        self.n = P.fresh_int(f"{tag}_len")
        i = z3.Int(P.names.fresh("di"))
        k = z3.Const(P.names.fresh("dk"), key_sort)
        P.assume(self.n >= 0)
        P.facts.append(z3.ForAll([i], z3.Implies(z3.And(i >= 0, i < self.n), z3.And(self.has(self.kkey(i)), self.pos(self.kkey(i)) == i)), patterns=[self.kkey(i)]))
        P.facts.append(z3.ForAll([k], z3.Implies(self.has(k), z3.And(self.pos(k) >= 0, self.pos(k) < self.n, self.kkey(self.pos(k)) == k)), patterns=[self.has(k)]))

    def keyz(self, I, k):
        if isinstance(k, SOpaque) and k.z.sort() == self.key_sort:
            return k.z
        raise Unsupported(f"dict key {k!r} for {self.tag}")

    def pvc_len(self, I):
        return SInt(self.n)

    def pvc_truth(self, I):
        return self.n > 0

    def pvc_contains(self, I, k):
        if isinstance(k, SOpaque) and k.z.sort() != self.key_sort:
            return False
        if not isinstance(k, SOpaque):
            return False
        return wrap(self.has(self.keyz(I, k)))

    def pvc_getitem(self, I, k):
        kz = self.keyz(I, k)
        I.raise_if(z3.Not(self.has(kz)), "KeyError")
        return self.val_wrap(self.get(kz))

    def pvc_iter(self, I):
        return DictSeq(self, "keys")

    def sorted_key_fn(self, P):
        """Enumeration of the keys sorted by str order (Str keys) / by name (Sym keys)."""
        if getattr(self, "_skey", None) is None:
            self._skey = z3.Function(P.names.fresh(f"{self.tag}_sorted_key"), z3.IntSort(), self.key_sort)
            self._spos = z3.Function(P.names.fresh(f"{self.tag}_sorted_pos"), self.key_sort, z3.IntSort())
            i, j = z3.Int(P.names.fresh("ski")), z3.Int(P.names.fresh("skj"))
            k = z3.Const(P.names.fresh("skk"), self.key_sort)
            nm = (lambda t: t) if self.key_sort == Str else (lambda t: name_f(t))
            sk, sp = self._skey, self._spos
            P.facts.append(z3.ForAll([i], z3.Implies(z3.And(i >= 0, i < self.n), z3.And(self.has(sk(i)), sp(sk(i)) == i)), patterns=[sk(i)]))
            P.facts.append(z3.ForAll([k], z3.Implies(self.has(k), z3.And(sp(k) >= 0, sp(k) < self.n, sk(sp(k)) == k)), patterns=[self.has(k)]))
            P.facts.append(z3.ForAll([i, j], z3.Implies(z3.And(i >= 0, i < j, j < self.n), ord_f(nm(sk(i))) < ord_f(nm(sk(j)))), patterns=[z3.MultiPattern(sk(i), sk(j))]))
        return self._skey

    def pvc_getattr(self, I, name):
        if name == "keys":
            return Builtin("dict.keys", lambda I, a, k: KeysView(self))
        if name == "items":
            return Builtin("dict.items", lambda I, a, k: DictSeq(self, "items"))
        if name == "values":
            return Builtin("dict.values", lambda I, a, k: SSeq(SInt(self.n), lambda i: self.val_wrap(self.get(self.kkey(i))), f"values({self.tag})"))
        return NotImplemented


class DictSeq(SSeq):
    """keys / items of a symbolic dict in iteration (insertion) order; sorted() gives the key-sorted enumeration."""

    def __init__(self, d, what):
        self.d, self.what = d, what
        if what == "keys":
            fn = lambda i: d.key_wrap(d.kkey(i))
        else:
            fn = lambda i: (d.key_wrap(d.kkey(i)), d.val_wrap(d.get(d.kkey(i))))
        super().__init__(SInt(d.n), fn, f"{what}({d.tag})")
        self.pvc_type = "list"

    def pvc_sorted(self, I, key, rev):
        if rev or key is not None:
            raise Unsupported("sorted(dict view) with key/reverse")
        if self.d.key_sort != Str:
            raise Unsupported("sorted() of non-string dict keys (sympy symbols do not define a total order)")
        sk = self.d.sorted_key_fn(I.path)
        d = self.d
        if self.what == "keys":
            s = SSeq(SInt(d.n), lambda i: d.key_wrap(sk(i)), f"sorted(keys({d.tag}))")
        else:
            s = SSeq(SInt(d.n), lambda i: (d.key_wrap(sk(i)), d.val_wrap(d.get(sk(i)))), f"sorted(items({d.tag}))")
        s.pvc_type = "list"
        return s


class KeysView(SV):
    def __init__(self, d):
        self.d = d

    def pvc_iter(self, I):
        return self.d.pvc_iter(I)

    def pvc_list(self, I):
        return self.d.pvc_iter(I)

    def pvc_set(self, I):
        return OpaqueSet(I, f"set(keys({self.d.tag}))")

    def pvc_len(self, I):
        return SInt(self.d.n)

    def pvc_contains(self, I, k):
        return self.d.pvc_contains(I, k)


class OpaqueSet(SV):
    """A set value that is only used to build error messages (set differences, emptiness tests): its size is an
    unconstrained non-negative integer, so both outcomes of any test on it are explored (sound over-approximation)."""

    pvc_type = "set"

    def __init__(self, I, tag):
        self.n = I.path.fresh_int("opaque_set_size")
        I.path.assume(self.n >= 0)
        self.tag = tag

    def pvc_len(self, I):
        return SInt(self.n)

    def pvc_binop(self, I, op, other, swapped):
        return OpaqueSet(I, f"setop({self.tag})")

    def pvc_truth(self, I):
        return self.n > 0


def real_wrap(z):
    return SReal(z)


class SeqDict:
    """dict built by `{str(k(i)): v(i) for i ...}` over a symbolic sequence with pairwise distinct keys
    (premise recorded as an obligation where it is built): has(k) <=> exists i. key(i) = k; get(key(i)) = val(i)."""

    pvc_type = "dict"

    def __init__(self, P, tag, n, key_at, val_at, key_sort, val_sort):
        self.n = n
        self.key_at, self.val_at = key_at, val_at
        self.has = z3.Function(P.names.fresh(f"{tag}_has"), key_sort, z3.BoolSort())
        self.get = z3.Function(P.names.fresh(f"{tag}_get"), key_sort, val_sort)
        self.pos = z3.Function(P.names.fresh(f"{tag}_pos"), key_sort, z3.IntSort())
        i = z3.Int(P.names.fresh("sdi"))
        k = z3.Const(P.names.fresh("sdk"), key_sort)
        P.facts.append(z3.ForAll([i], z3.Implies(z3.And(i >= 0, i < n), z3.And(self.has(key_at(i)), self.get(key_at(i)) == val_at(i), self.pos(key_at(i)) == i)), patterns=[key_at(i)]))
        P.facts.append(z3.ForAll([k], z3.Implies(self.has(k), z3.And(self.pos(k) >= 0, self.pos(k) < n, key_at(self.pos(k)) == k)), patterns=[self.has(k)]))

    def pvc_len(self, I):
        return SInt(self.n)


# ------------------------------------------------------------------------------------------------
# finite sets of symbols / strings; declared containers (set | list)

SymSet = z3.DeclareSort("SymSet")
member_f = z3.Function("member", SymSet, Sym, z3.BoolSort())
card_f = z3.Function("card", SymSet, z3.IntSort())
srt_f = z3.Function("srt", SymSet, z3.IntSort(), Sym)  # enumeration sorted by name
spos_f = z3.Function("srt_pos", SymSet, Sym, z3.IntSort())
lst_f = z3.Function("hash_order", SymSet, z3.IntSort(), Sym)  # iteration order of the python set (ORDER TOKEN)


def symset_axioms(P, t):
    """sorted-by-name enumeration of a finite set whose elements have pairwise distinct names."""
    i, j = z3.Int(P.names.fresh("si")), z3.Int(P.names.fresh("sj"))
    x = z3.Const(P.names.fresh("sx"), Sym)
    n = card_f(t)
    P.assume(n >= 0)
    P.facts.append(z3.ForAll([i], z3.Implies(z3.And(i >= 0, i < n), z3.And(member_f(t, srt_f(t, i)), spos_f(t, srt_f(t, i)) == i)), patterns=[srt_f(t, i)]))
    P.facts.append(z3.ForAll([x], z3.Implies(member_f(t, x), z3.And(spos_f(t, x) >= 0, spos_f(t, x) < n, srt_f(t, spos_f(t, x)) == x)), patterns=[member_f(t, x)]))
    P.facts.append(z3.ForAll([i, j], z3.Implies(z3.And(i >= 0, i < j, j < n), ord_f(name_f(srt_f(t, i))) < ord_f(name_f(srt_f(t, j)))), patterns=[z3.MultiPattern(srt_f(t, i), srt_f(t, j))]))
    # the hash-order enumeration is a permutation of the same elements
    P.facts.append(z3.ForAll([i], z3.Implies(z3.And(i >= 0, i < n), member_f(t, lst_f(t, i))), patterns=[lst_f(t, i)]))


class SSetV(SV):
    """A declared symbol container: python set (unordered, ORDER TOKEN on iteration) or list."""

    def __init__(self, P, tag, container="set"):
        self.term = z3.Const(P.names.fresh(tag), SymSet)
        self.container = container
        self.pvc_type = container
        symset_axioms(P, self.term)

    def has(self, xz):
        return member_f(self.term, xz)

    def card(self):
        return card_f(self.term)

    def pvc_len(self, I):
        return SInt(self.card())

    def pvc_truth(self, I):
        return self.card() > 0

    def pvc_contains(self, I, x):
        if isinstance(x, SymV):
            return wrap(self.has(x.z))
        return False

    def pvc_iter(self, I):
        return OrderedView(self, "hash")

    def pvc_list(self, I):
        return OrderedView(self, "hash")

    def pvc_set(self, I):
        if self.container == "set":
            return self
        s = SSetV.__new__(SSetV)
        s.term, s.container, s.pvc_type = self.term, "set", "set"
        return s

    def sorted_seq(self):
        t = self.term
        s = SSeq(SInt(card_f(t)), lambda i: SymV(srt_f(t, i)), f"sorted({t})")
        s.pvc_type = "list"
        return s

    def pvc_binop(self, I, op, other, swapped):
        import ast as _ast

        if isinstance(op, (_ast.Sub, _ast.BitOr, _ast.BitAnd)) and self.container == "set":
            return OpaqueSet(I, f"setop({self.term})")
        if self.container != "set":
            raise PyRaise("TypeError")  # list - set etc.
        return NotImplemented

    def pvc_eq(self, I, other):
        if isinstance(other, SSetV):
            if self.container != other.container:
                return False  # a set never equals a list
            if z3.eq(self.term, other.term):
                return True
            x = z3.Const(I.path.names.fresh("ex"), Sym)
            if self.container == "set":
                return wrap(z3.ForAll([x], member_f(self.term, x) == member_f(other.term, x)))
        return NotImplemented


class OrderedView(SSeq):
    """list(S) / iteration of a python set: an arbitrary (hash-seed dependent) enumeration."""

    def __init__(self, s, order):
        t = s.term
        super().__init__(SInt(card_f(t)), lambda i: SymV(lst_f(t, i)), f"list({t})")
        self.set = s
        self.order_token = True
        self.pvc_type = "list"

    def pvc_sorted(self, I, key, rev):
        if rev:
            raise Unsupported("sorted(reverse=True) of a symbol set")
        if key is None:
            raise Unsupported("sorted() of symbols without key")
        probe = SymV(z3.Const("probe_sym", Sym))
        kv = I.call(key, [probe], {})
        if isinstance(kv, StrV) and z3.eq(kv.z, name_f(probe.z)):
            return self.set.sorted_seq()
        raise Unsupported("sorted() of symbols by a key other than .name")

    def pvc_set(self, I):
        return self.set.pvc_set(I)
