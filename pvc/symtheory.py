"""Theory of sympy symbols / names / expressions / environments and of symbolic dicts and sets.

Sorts
  Sym   sympy.Symbol            name : Sym -> Str
  Str   python str              ord  : Str -> Real   (order embedding of the lexicographic order: every
                                 countable total order embeds in the rationals, so assuming one is sound)
  Expr  sympy expression        ev   : Expr x Env -> Real  (value under an environment)
  Env   valuation               lookup : Env x Sym -> Real
  SymSet  finite set of Sym     member, card, srt (sorted-by-name enumeration), pos

Symbolic dicts are functions (has, get) plus an iteration-order sequence.
"""
from __future__ import annotations

import z3

from .interp import Builtin, BoundMethod, PyList, as_seq2
from .sym import PyRaise, SBool, SInt, SOpaque, SReal, SSeq, SV, Unsupported, subst, to_bool, to_int, to_real, wrap

Sym = z3.DeclareSort("Sym")
Str = z3.DeclareSort("Str")
Expr = z3.DeclareSort("Expr")
Env = z3.DeclareSort("Env")
name_f = z3.Function("name", Sym, Str)
ord_f = z3.Function("ord", Str, z3.RealSort())
ev_f = z3.Function("ev", Expr, Env, z3.RealSort())
lookup_f = z3.Function("lookup", Env, Sym, z3.RealSort())
diff_f = z3.Function("diff", Expr, Sym, Expr)
sym_expr = z3.Function("sym_expr", Sym, Expr)  # a Symbol used as an expression


def ord_injective(a, b):
    """ord is an order embedding: instance of injectivity for two strings."""
    return (ord_f(a) == ord_f(b)) == (a == b)


class SymV(SOpaque):
    """A sympy Symbol."""

    def __init__(self, z):
        super().__init__(z, "Sym")

    def pvc_getattr(self, I, attr):
        if attr == "name":
            return StrV(name_f(self.z))
        if attr == "is_real":
            # sympy's three-valued assumption: True / False / None (no assumption: the symbol is treated as complex)
            from .sym import SBool
            from .sympy_model import is_real_f, real_unknown_f

            return MaybeV(z3.Not(real_unknown_f(self.z)), SBool(is_real_f(self.z)))
        return NotImplemented

    def pvc_str(self, I):
        return StrV(name_f(self.z))

    def pvc_subst(self, pairs):
        return SymV(z3.substitute(self.z, *pairs))

    def pvc_merge(self, c, other):
        if isinstance(other, SymV):
            return SymV(z3.If(c, self.z, other.z))
        return NotImplemented


class StrV(SOpaque):
    """A python str of unknown content."""

    def __init__(self, z):
        super().__init__(z, "Str")

    def pvc_str(self, I):
        return self

    def pvc_subst(self, pairs):
        return StrV(z3.substitute(self.z, *pairs))

    def pvc_merge(self, c, other):
        if isinstance(other, StrV):
            return StrV(z3.If(c, self.z, other.z))
        return NotImplemented

    def pvc_compare(self, I, op, other, swapped):
        import ast

        if not isinstance(other, StrV):
            return NotImplemented
        a, b = (other, self) if swapped else (self, other)
        x, y = ord_f(a.z), ord_f(b.z)
        return wrap({ast.Lt: x < y, ast.LtE: x <= y, ast.Gt: x > y, ast.GtE: x >= y}[type(op)])


fs_f = z3.Function("free_symbol", Expr, Sym, z3.BoolSort())  # s in e.free_symbols


class ExprV(SOpaque):
    def __init__(self, z):
        super().__init__(z, "Expr")

    def pvc_getattr(self, I, attr):
        if attr == "free_symbols":
            ez = self.z
            n = I.path.fresh_int("n_free_symbols")
            I.path.assume(n >= 0)
            return KeySetV(lambda x: fs_f(ez, x), n, Sym)
        return NotImplemented

    def pvc_subst(self, pairs):
        return ExprV(z3.substitute(self.z, *pairs))

    def pvc_merge(self, c, other):
        if isinstance(other, ExprV):
            return ExprV(z3.If(c, self.z, other.z))
        return NotImplemented


class SDictV(SV):
    """Symbolic dict with keys of one z3 sort and values of one z3 sort.

    has/get are z3 functions of the key; `keys` is the iteration order (SSeq of key terms) of
    symbolic length `n`, with the axioms (given to the solver as quantified facts, patterns on has/kkey):
        forall i in [0,n): has(kkey(i)) and pos(kkey(i)) = i
        forall k: has(k) -> 0 <= pos(k) < n and kkey(pos(k)) = k
    """

    pvc_type = "dict"

    def __init__(self, P, tag, key_sort, val_sort, key_wrap, val_wrap):
        self.tag = tag
        self.key_sort, self.val_sort = key_sort, val_sort
        self.key_wrap, self.val_wrap = key_wrap, val_wrap
        self.has = z3.Function(P.names.fresh(f"{tag}_has"), key_sort, z3.BoolSort())
        self.get = z3.Function(P.names.fresh(f"{tag}_get"), key_sort, val_sort)
        self.kkey = z3.Function(P.names.fresh(f"{tag}_key"), z3.IntSort(), key_sort)
        self.pos = z3.Function(P.names.fresh(f"{tag}_pos"), key_sort, z3.IntSort())
        P.ghost.setdefault("order_enums", {})[self.kkey.name()] = lambda P2, d=self: d.sorted_key_fn(P2)
        self.n = P.fresh_int(f"{tag}_len")
        i = z3.Int(P.names.fresh("di"))
        k = z3.Const(P.names.fresh("dk"), key_sort)
        P.assume(self.n >= 0)
        P.facts.append(z3.ForAll([i], z3.Implies(z3.And(i >= 0, i < self.n), z3.And(self.has(self.kkey(i)), self.pos(self.kkey(i)) == i)), patterns=[self.kkey(i)]))
        P.facts.append(z3.ForAll([k], z3.Implies(self.has(k), z3.And(self.pos(k) >= 0, self.pos(k) < self.n, self.kkey(self.pos(k)) == k)), patterns=[self.has(k)]))

    def keyz(self, I, k):
        if isinstance(k, SOpaque) and k.z.sort() == self.key_sort:
            return k.z
        raise Unsupported(f"dict key {k!r} for {self.tag}")

    def pvc_len(self, I):
        return SInt(self.n)


    def pvc_truth(self, I):
        return self.n > 0

    def pvc_contains(self, I, k):
        if isinstance(k, SOpaque) and k.z.sort() != self.key_sort:
            return False
        if not isinstance(k, SOpaque):
            return False
        return wrap(self.has(self.keyz(I, k)))

    def pvc_getitem(self, I, k):
        kz = self.keyz(I, k)
        I.raise_if(z3.Not(self.has(kz)), "KeyError")
        return self.val_wrap(self.get(kz))

    def pvc_iter(self, I):
        return DictSeq(self, "keys")

    def sorted_key_fn(self, P):
        """Enumeration of the keys sorted by str order (Str keys) / by name (Sym keys)."""
        if getattr(self, "_skey", None) is None:
            self._skey = z3.Function(P.names.fresh(f"{self.tag}_sorted_key"), z3.IntSort(), self.key_sort)
            self._spos = z3.Function(P.names.fresh(f"{self.tag}_sorted_pos"), self.key_sort, z3.IntSort())
            i, j = z3.Int(P.names.fresh("ski")), z3.Int(P.names.fresh("skj"))
            k = z3.Const(P.names.fresh("skk"), self.key_sort)
            nm = (lambda t: t) if self.key_sort == Str else (lambda t: name_f(t))
            sk, sp = self._skey, self._spos
            P.facts.append(z3.ForAll([i], z3.Implies(z3.And(i >= 0, i < self.n), z3.And(self.has(sk(i)), sp(sk(i)) == i)), patterns=[sk(i)]))
            P.facts.append(z3.ForAll([k], z3.Implies(self.has(k), z3.And(sp(k) >= 0, sp(k) < self.n, sk(sp(k)) == k)), patterns=[self.has(k)]))
            P.facts.append(z3.ForAll([i, j], z3.Implies(z3.And(i >= 0, i < j, j < self.n), ord_f(nm(sk(i))) < ord_f(nm(sk(j)))), patterns=[z3.MultiPattern(sk(i), sk(j))]))
        return self._skey

    def pvc_getattr(self, I, name):
        if name == "get":

            def m_get(I2, a, kw):
                if len(a) == 2 and a[1] is not None:
                    raise Unsupported("dict.get with a non-None default")
                kz = self.keyz(I2, a[0])
                return MaybeV(self.has(kz), self.val_wrap(self.get(kz)))

            return Builtin("dict.get", m_get)
        if name == "keys":
            return Builtin("dict.keys", lambda I, a, k: KeysView(self))
        if name == "items":
            return Builtin("dict.items", lambda I, a, k: DictSeq(self, "items"))
        if name == "values":
            return Builtin("dict.values", lambda I, a, k: SSeq(SInt(self.n), lambda i: self.val_wrap(self.get(self.kkey(i))), f"values({self.tag})"))
        return NotImplemented


class MaybeV(SV):
    """d.get(k): the value under k when present, else the default None (a conditional value)."""

    def __init__(self, has, val):
        self.has, self.val = has, val

    def pvc_subst(self, pairs):
        from .sym import subst

        return MaybeV(z3.substitute(self.has, *pairs), subst(self.val, pairs))

    def pvc_is_none(self, I):
        return wrap(z3.Not(self.has))

    def pvc_truth(self, I):
        t = I.truth(self.val)
        return z3.And(self.has, t if z3.is_expr(t) else z3.BoolVal(bool(t)))

    def present_value(self, I):
        """use as a plain value: None where a number is required raises TypeError"""
        I.raise_if(z3.Not(self.has), "TypeError")
        return self.val


class DictSeq(SSeq):
    """keys / items of a symbolic dict in iteration (insertion) order; sorted() gives the key-sorted enumeration."""

    def __init__(self, d, what):
        self.d, self.what = d, what
        if what == "keys":
            fn = lambda i: d.key_wrap(d.kkey(i))
        else:
            fn = lambda i: (d.key_wrap(d.kkey(i)), d.val_wrap(d.get(d.kkey(i))))
        super().__init__(SInt(d.n), fn, f"{what}({d.tag})")
        self.pvc_type = "list"

    def pvc_sorted(self, I, key, rev):
        if rev or key is not None:
            raise Unsupported("sorted(dict view) with key/reverse")
        if self.d.key_sort != Str:
            raise Unsupported("sorted() of non-string dict keys (sympy symbols do not define a total order)")
        sk = self.d.sorted_key_fn(I.path)
        d = self.d
        if self.what == "keys":
            s = SSeq(SInt(d.n), lambda i: d.key_wrap(sk(i)), f"sorted(keys({d.tag}))")
        else:
            s = SSeq(SInt(d.n), lambda i: (d.key_wrap(sk(i)), d.val_wrap(d.get(sk(i)))), f"sorted(items({d.tag}))")
        s.pvc_type = "list"
        return s


class KeysView(SV):
    def __init__(self, d):
        self.d = d

    def pvc_iter(self, I):
        return self.d.pvc_iter(I)

    def pvc_list(self, I):
        return self.d.pvc_iter(I)

    def pvc_set(self, I):
        return KeySetV(lambda x: self.d.has(x), self.d.n, self.d.key_sort)

    def pvc_len(self, I):
        return SInt(self.d.n)

    def pvc_contains(self, I, k):
        return self.d.pvc_contains(I, k)


class OpaqueMsg(SV):
    """A value that only feeds error-message text (derived from message-only sets): every operation yields another
    OpaqueMsg; it can never decide a branch (truth is unsupported) - so it cannot influence verified behaviour."""

    pvc_type = "list"

    def pvc_getattr(self, I, name):
        return OpaqueMsg()

    def pvc_call(self, I, args, kwargs):
        return OpaqueMsg()

    def pvc_getitem(self, I, idx):
        return OpaqueMsg()

    def pvc_binop(self, I, op, other, swapped):
        return OpaqueMsg()

    def pvc_sorted(self, I, key, rev):
        return OpaqueMsg()

    def pvc_list(self, I):
        return OpaqueMsg()

    def pvc_str(self, I):
        return OpaqueMsg()

    def pvc_len(self, I):
        n = I.path.fresh_int("opaque_len")
        I.path.assume(n >= 0)
        return SInt(n)

    def pvc_truth(self, I):
        raise Unsupported("message-only value used as a condition")

    def pvc_subst(self, pairs):
        return self


class OpaqueSet(SV):
    """A set value that is only used to build error messages (set differences, emptiness tests): its size is an
    unconstrained non-negative integer, so both outcomes of any test on it are explored (sound over-approximation)."""

    pvc_type = "set"

    def __init__(self, I, tag):
        self.n = I.path.fresh_int("opaque_set_size")
        I.path.assume(self.n >= 0)
        self.tag = tag

    def pvc_len(self, I):
        return SInt(self.n)

    def pvc_binop(self, I, op, other, swapped):
        return OpaqueSet(I, f"setop({self.tag})")

    def pvc_truth(self, I):
        return self.n > 0

    def pvc_eq(self, I, other):
        raise Unsupported("comparison of a message-only set")

    def pvc_contains(self, I, x):
        raise Unsupported("membership in a message-only set")

    def pvc_iter(self, I):
        return OpaqueMsg()

    def pvc_list(self, I):
        return OpaqueMsg()


def real_wrap(z):
    return SReal(z)


class SeqDict:
    """dict built by `{str(k(i)): v(i) for i ...}` over a symbolic sequence with pairwise distinct keys
    (premise recorded as an obligation where it is built): has(k) <=> exists i. key(i) = k; get(key(i)) = val(i)."""

    pvc_type = "dict"

    def __init__(self, P, tag, n, key_at, val_at, key_sort, val_sort):
        self.n = n
        self.key_at, self.val_at = key_at, val_at
        self.has = z3.Function(P.names.fresh(f"{tag}_has"), key_sort, z3.BoolSort())
        self.get = z3.Function(P.names.fresh(f"{tag}_get"), key_sort, val_sort)
        self.pos = z3.Function(P.names.fresh(f"{tag}_pos"), key_sort, z3.IntSort())
        i = z3.Int(P.names.fresh("sdi"))
        k = z3.Const(P.names.fresh("sdk"), key_sort)
        P.facts.append(z3.ForAll([i], z3.Implies(z3.And(i >= 0, i < n), z3.And(self.has(key_at(i)), self.get(key_at(i)) == val_at(i), self.pos(key_at(i)) == i)), patterns=[key_at(i)]))
        P.facts.append(z3.ForAll([k], z3.Implies(self.has(k), z3.And(self.pos(k) >= 0, self.pos(k) < n, key_at(self.pos(k)) == k)), patterns=[self.has(k)]))

    def pvc_len(self, I):
        return SInt(self.n)

    def pvc_contains(self, I, k):
        if isinstance(k, SOpaque) and k.z.sort() == self.key_at(z3.IntVal(0)).sort():
            return wrap(self.has(k.z))
        return False

    def wrapk(self, z):
        return SymV(z) if z.sort() == Sym else StrV(z)

    def wrapv(self, z):
        return SReal(z) if z.sort() == z3.RealSort() else SOpaque(z)

    def pvc_getitem(self, I, k):
        I.raise_if(z3.Not(self.has(k.z)), "KeyError")
        return self.wrapv(self.get(k.z))

    def pvc_iter(self, I):
        return SSeq(SInt(self.n), lambda i: self.wrapk(self.key_at(i)), "keys(seqdict)")

    def pvc_getattr(self, I, name):
        if name == "items":
            return Builtin("dict.items", lambda I2, a, k: SSeq(SInt(self.n), lambda i: (self.wrapk(self.key_at(i)), self.wrapv(self.val_at(i))), "items(seqdict)"))
        if name == "keys":
            self.key_sort = self.key_at(z3.IntVal(0)).sort()
            return Builtin("dict.keys", lambda I2, a, k: KeysView(self))
        if name == "values":
            return Builtin("dict.values", lambda I2, a, k: SSeq(SInt(self.n), lambda i: self.wrapv(self.val_at(i)), "values(seqdict)"))
        return NotImplemented


# ------------------------------------------------------------------------------------------------
# finite sets of symbols / strings; declared containers (set | list)

SymSet = z3.DeclareSort("SymSet")
member_f = z3.Function("member", SymSet, Sym, z3.BoolSort())
card_f = z3.Function("card", SymSet, z3.IntSort())
srt_f = z3.Function("srt", SymSet, z3.IntSort(), Sym)  # enumeration sorted by name
spos_f = z3.Function("srt_pos", SymSet, Sym, z3.IntSort())
lst_f = z3.Function("hash_order", SymSet, z3.IntSort(), Sym)  # iteration order of the python set (ORDER TOKEN)
lpos_f = z3.Function("hash_order_pos", SymSet, Sym, z3.IntSort())


def symset_axioms(P, t):
    """sorted-by-name enumeration of a finite set whose elements have pairwise distinct names."""
    i, j = z3.Int(P.names.fresh("si")), z3.Int(P.names.fresh("sj"))
    x = z3.Const(P.names.fresh("sx"), Sym)
    n = card_f(t)
    P.assume(n >= 0)
    P.facts.append(z3.ForAll([i], z3.Implies(z3.And(i >= 0, i < n), z3.And(member_f(t, srt_f(t, i)), spos_f(t, srt_f(t, i)) == i)), patterns=[srt_f(t, i)]))
    P.facts.append(z3.ForAll([x], z3.Implies(member_f(t, x), z3.And(spos_f(t, x) >= 0, spos_f(t, x) < n, srt_f(t, spos_f(t, x)) == x)), patterns=[member_f(t, x)]))
    P.facts.append(z3.ForAll([i, j], z3.Implies(z3.And(i >= 0, i < j, j < n), ord_f(name_f(srt_f(t, i))) < ord_f(name_f(srt_f(t, j)))), patterns=[z3.MultiPattern(srt_f(t, i), srt_f(t, j))]))
    # the hash-order enumeration is a permutation of the same elements
    P.facts.append(z3.ForAll([i], z3.Implies(z3.And(i >= 0, i < n), z3.And(member_f(t, lst_f(t, i)), lpos_f(t, lst_f(t, i)) == i)), patterns=[lst_f(t, i)]))
    P.facts.append(z3.ForAll([x], z3.Implies(member_f(t, x), z3.And(lpos_f(t, x) >= 0, lpos_f(t, x) < n, lst_f(t, lpos_f(t, x)) == x)), patterns=[member_f(t, x)]))


class SSetV(SV):
    """A declared symbol container: python set (unordered, ORDER TOKEN on iteration) or list."""

    def __init__(self, P, tag, container="set"):
        self.term = z3.Const(P.names.fresh(tag), SymSet)
        self.container = container
        self.pvc_type = container
        symset_axioms(P, self.term)

    def has(self, xz):
        return member_f(self.term, xz)

    def card(self):
        return card_f(self.term)

    def pvc_len(self, I):
        return SInt(self.card())

    def pvc_truth(self, I):
        return self.card() > 0

    def pvc_contains(self, I, x):
        if isinstance(x, SymV):
            return wrap(self.has(x.z))
        return False

    def pvc_iter(self, I):
        return OrderedView(self, "hash")

    def pvc_list(self, I):
        return OrderedView(self, "hash")

    def pvc_set(self, I):
        if self.container == "set":
            return self
        s = SSetV.__new__(SSetV)
        s.term, s.container, s.pvc_type = self.term, "set", "set"
        return s

    def sorted_seq(self):
        t = self.term
        s = SSeq(SInt(card_f(t)), lambda i: SymV(srt_f(t, i)), f"sorted({t})")
        s.pvc_type = "list"
        return s

    def pvc_binop(self, I, op, other, swapped):
        import ast as _ast

        return set_binop(I, op, other, self, Sym) if swapped else set_binop(I, op, self, other, Sym)

    def pvc_eq(self, I, other):
        if isinstance(other, SSetV):
            if self.container != other.container:
                return False  # a set never equals a list
            if z3.eq(self.term, other.term):
                return True
            x = z3.Const(I.path.names.fresh("ex"), Sym)
            if self.container == "set":
                return wrap(z3.ForAll([x], member_f(self.term, x) == member_f(other.term, x)))
        if isinstance(other, KeySetV):
            if self.container != "set":
                return False
            return other.pvc_eq(I, self)
        return NotImplemented

    def pvc_getattr(self, I, name):
        if name == "isdisjoint" and self.container == "set":

            def f(I, args, kw):
                oh = set_membership(args[0])
                if oh is None:
                    raise Unsupported("isdisjoint with an unknown set")
                x = z3.Const(I.path.names.fresh("dx"), Sym)
                return wrap(z3.Not(z3.Exists([x], z3.And(member_f(self.term, x), oh(x)))))

            return Builtin("set.isdisjoint", f)
        if name == "intersection":
            import ast as _ast

            return Builtin("set.intersection", lambda I, a, k: set_binop(I, _ast.BitAnd(), self, a[0], Sym))
        return NotImplemented


class OrderedView(SSeq):
    """list(S) / iteration of a python set: an arbitrary (hash-seed dependent) enumeration."""

    def __init__(self, s, order):
        t = s.term
        super().__init__(SInt(card_f(t)), lambda i: SymV(lst_f(t, i)), f"list({t})")
        self.set = s
        self.order_token = True
        self.pvc_type = "list"

    def pvc_sorted(self, I, key, rev):
        if rev:
            raise Unsupported("sorted(reverse=True) of a symbol set")
        if key is None:
            raise Unsupported("sorted() of symbols without key")
        probe = SymV(z3.Const("probe_sym", Sym))
        kv = I.call(key, [probe], {})
        if isinstance(kv, StrV) and z3.eq(kv.z, name_f(probe.z)):
            return self.set.sorted_seq()
        raise Unsupported("sorted() of symbols by a key other than .name")

    def pvc_set(self, I):
        return self.set.pvc_set(I)


# ------------------------------------------------------------------------------------------------
# dict of dicts (sensor_models: sensor name -> {reading name -> expression}; sensor_noises likewise)


class SDict2V(SV):
    """Symbolic dict whose values are dicts: outer keys Str, inner keys Str, inner values of one z3 sort."""

    pvc_type = "dict"

    def __init__(self, P, tag, val_sort, val_wrap):
        self.tag, self.val_sort, self.val_wrap = tag, val_sort, val_wrap
        S, Iz, B = Str, z3.IntSort(), z3.BoolSort()
        f = lambda n, *sorts: z3.Function(P.names.fresh(f"{tag}_{n}"), *sorts)
        self.has1, self.key1, self.pos1 = f("has", S, B), f("key", Iz, S), f("pos", S, Iz)
        self.n = P.fresh_int(f"{tag}_len")
        self.has2, self.get2 = f("has2", S, S, B), f("get2", S, S, val_sort)
        self.len2, self.key2, self.pos2 = f("len2", S, Iz), f("key2", S, Iz, S), f("pos2", S, S, Iz)
        self.skey1, self.spos1 = f("sorted_key", Iz, S), f("sorted_pos", S, Iz)
        P.ghost.setdefault("order_enums", {})[self.key1.name()] = lambda P2, d=self: d.skey1
        self.skey2, self.spos2 = f("sorted_key2", S, Iz, S), f("sorted_pos2", S, S, Iz)
        i, j = z3.Int(P.names.fresh("d2i")), z3.Int(P.names.fresh("d2j"))
        k, k2 = z3.Const(P.names.fresh("d2k"), S), z3.Const(P.names.fresh("d2k2"), S)
        P.assume(self.n >= 0)
        A = P.facts.append
        for key, pos in ((self.key1, self.pos1), (self.skey1, self.spos1)):
            A(z3.ForAll([i], z3.Implies(z3.And(i >= 0, i < self.n), z3.And(self.has1(key(i)), pos(key(i)) == i)), patterns=[key(i)]))
            A(z3.ForAll([k], z3.Implies(self.has1(k), z3.And(pos(k) >= 0, pos(k) < self.n, key(pos(k)) == k)), patterns=[self.has1(k)]))
        A(z3.ForAll([i, j], z3.Implies(z3.And(i >= 0, i < j, j < self.n), ord_f(self.skey1(i)) < ord_f(self.skey1(j))), patterns=[z3.MultiPattern(self.skey1(i), self.skey1(j))]))
        A(z3.ForAll([k], self.len2(k) >= 0, patterns=[self.len2(k)]))
        for key, pos in ((self.key2, self.pos2), (self.skey2, self.spos2)):
            A(z3.ForAll([k, i], z3.Implies(z3.And(i >= 0, i < self.len2(k)), z3.And(self.has2(k, key(k, i)), pos(k, key(k, i)) == i)), patterns=[key(k, i)]))
            A(z3.ForAll([k, k2], z3.Implies(self.has2(k, k2), z3.And(pos(k, k2) >= 0, pos(k, k2) < self.len2(k), key(k, pos(k, k2)) == k2)), patterns=[self.has2(k, k2)]))
        A(z3.ForAll([k, i, j], z3.Implies(z3.And(i >= 0, i < j, j < self.len2(k)), ord_f(self.skey2(k, i)) < ord_f(self.skey2(k, j))), patterns=[z3.MultiPattern(self.skey2(k, i), self.skey2(k, j))]))

    def inner(self, kz):
        return InnerDictV(self, kz)

    def pvc_len(self, I):
        return SInt(self.n)

    def pvc_truth(self, I):
        return self.n > 0

    def pvc_contains(self, I, k):
        if isinstance(k, StrV):
            return wrap(self.has1(k.z))
        return False

    def pvc_getitem(self, I, k):
        if not isinstance(k, StrV):
            raise Unsupported("outer dict key")
        I.raise_if(z3.Not(self.has1(k.z)), "KeyError")
        return self.inner(k.z)

    def seq(self, what, srt=False):
        key = self.skey1 if srt else self.key1
        if what == "keys":
            fn = lambda i: StrV(key(i))
        elif what == "values":
            fn = lambda i: self.inner(key(i))
        else:
            fn = lambda i: (StrV(key(i)), self.inner(key(i)))
        s = Dict2Seq(self, what, SInt(self.n), fn, f"{what}({self.tag})")
        return s

    def pvc_iter(self, I):
        return self.seq("keys")

    def pvc_getattr(self, I, name):
        if name in ("keys", "items", "values"):
            return Builtin(f"dict.{name}", lambda I, a, k, name=name: self.seq(name))
        return NotImplemented


class Dict2Seq(SSeq):
    def __init__(self, d, what, n, fn, desc):
        super().__init__(n, fn, desc)
        self.d, self.what = d, what
        self.pvc_type = "list"

    def pvc_sorted(self, I, key, rev):
        if rev or key is not None or self.what == "values":
            raise Unsupported("sorted(dict view) with key/reverse")
        return self.d.seq(self.what, srt=True)

    def pvc_set(self, I):
        if self.what == "keys":
            return KeySetV(lambda x: self.d.has1(x), self.d.n, Str)
        raise Unsupported("set of dict items")


class InnerDictV(SV):
    """sensor_models[key]: the inner dict, a view on the binary functions of the parent."""

    pvc_type = "dict"

    def __init__(self, parent, kz):
        self.p, self.k = parent, kz
        self.key_sort = Str

    def pvc_subst(self, pairs):
        return InnerDictV(self.p, z3.substitute(self.k, *pairs))

    def pvc_merge(self, c, other):
        if isinstance(other, InnerDictV) and other.p is self.p:
            return InnerDictV(self.p, z3.If(c, self.k, other.k))
        return NotImplemented

    @property
    def n(self):
        return self.p.len2(self.k)

    def has(self, x):
        return self.p.has2(self.k, x)

    def get(self, x):
        return self.p.get2(self.k, x)

    def pvc_len(self, I):
        return SInt(self.n)

    def pvc_contains(self, I, k):
        if isinstance(k, StrV):
            return wrap(self.has(k.z))
        return False

    def pvc_getitem(self, I, k):
        if not isinstance(k, StrV):
            raise Unsupported("inner dict key")
        I.raise_if(z3.Not(self.has(k.z)), "KeyError")
        return self.p.val_wrap(self.get(k.z))

    def seq(self, what, srt=False):
        key = (lambda i: self.p.skey2(self.k, i)) if srt else (lambda i: self.p.key2(self.k, i))
        if what == "keys":
            fn = lambda i: StrV(key(i))
        elif what == "values":
            fn = lambda i: self.p.val_wrap(self.get(key(i)))
        else:
            fn = lambda i: (StrV(key(i)), self.p.val_wrap(self.get(key(i))))
        return InnerSeq(self, what, SInt(self.n), fn, f"{what}(inner)")

    def sorted_key_fn(self, P):
        return lambda i: self.p.skey2(self.k, i)

    def pvc_iter(self, I):
        return self.seq("keys")

    def pvc_getattr(self, I, name):
        if name in ("keys", "items", "values"):
            return Builtin(f"dict.{name}", lambda I, a, k, name=name: self.seq(name))
        return NotImplemented


class InnerSeq(SSeq):
    def __init__(self, d, what, n, fn, desc):
        super().__init__(n, fn, desc)
        self.d, self.what = d, what
        self.pvc_type = "list"

    def pvc_sorted(self, I, key, rev):
        if rev or key is not None or self.what == "values":
            raise Unsupported("sorted(dict view) with key/reverse")
        return self.d.seq(self.what, srt=True)

    def pvc_set(self, I):
        if self.what == "keys":
            return KeySetV(lambda x: self.d.has(x), self.d.n, Str)
        raise Unsupported("set of dict items")


class KeySetV(SV):
    """set(d.keys()) / set(symbols): a set given by its membership predicate (used in real comparisons)."""

    pvc_type = "set"

    def __init__(self, has, n, sort):
        self.has, self.n, self.sort = has, n, sort

    def pvc_len(self, I):
        return SInt(self.n)

    def pvc_set(self, I):
        return self

    def pvc_truth(self, I):
        return self.n > 0

    def pvc_subst(self, pairs):
        h, n = self.has, self.n
        return KeySetV(lambda x: z3.substitute(h(x), *pairs), z3.substitute(n, *pairs) if z3.is_expr(n) else n, self.sort)

    def pvc_merge(self, c, other):
        oh = set_membership(other)
        on = getattr(other, "n", None)
        if type(other).__name__ == "ConcreteSet" and not other.items:
            oh, on = (lambda x: z3.BoolVal(False)), z3.IntVal(0)
        if oh is None or on is None:
            return NotImplemented
        h, n = self.has, self.n
        return KeySetV(lambda x: z3.If(c, h(x), oh(x)), z3.If(c, n, on), self.sort)

    def pvc_comprehension(self, I, gen, elt_thunk):
        return OpaqueMsg()  # elements of an abstract set are only ever rendered into messages

    def pvc_list(self, I):
        return OpaqueMsg()

    def pvc_contains(self, I, x):
        if isinstance(x, SOpaque) and x.z.sort() == self.sort:
            return wrap(self.has(x.z))
        return False

    def pvc_eq(self, I, other):
        oh = set_membership(other)
        if oh is None:
            return NotImplemented
        if getattr(other, "pvc_type", "set") != "set":
            return False
        x = z3.Const(I.path.names.fresh("sx"), self.sort)
        return wrap(z3.ForAll([x], self.has(x) == oh(x)))

    def pvc_binop(self, I, op, other, swapped):
        return set_binop(I, op, other, self, self.sort) if swapped else set_binop(I, op, self, other, self.sort)

    def issubset_z(self, other):
        oh = set_membership(other)
        return None if oh is None else (self.has, oh)

    def pvc_getattr(self, I, name):
        if name == "issubset":

            def f(I, args, kw):
                oh = set_membership(args[0])
                if oh is None:
                    raise Unsupported("issubset of an unknown set")
                x = z3.Const(I.path.names.fresh("sx"), self.sort)
                return wrap(z3.ForAll([x], z3.Implies(self.has(x), oh(x))))

            return Builtin("set.issubset", f)
        return NotImplemented


def set_binop(I, op, a, b, sort):
    """Precise union / difference / intersection of sets given by membership predicates; the size of the result is a fresh
    integer linked to emptiness:  size >= 0  and  (size > 0  <=>  exists x. x in result)."""
    import ast as _ast

    ha, hb = set_membership(a), set_membership(b)
    if ha is None or hb is None:
        return NotImplemented
    if getattr(a, "pvc_type", "set") != "set" or getattr(b, "pvc_type", "set") != "set":
        raise PyRaise("TypeError")  # e.g. list - set
    if isinstance(op, _ast.BitOr):
        h = lambda x: z3.Or(ha(x), hb(x))
    elif isinstance(op, _ast.Sub):
        h = lambda x: z3.And(ha(x), z3.Not(hb(x)))
    elif isinstance(op, _ast.BitAnd):
        h = lambda x: z3.And(ha(x), hb(x))
    else:
        return NotImplemented
    n = I.path.fresh_int("set_size")
    x = z3.Const(I.path.names.fresh("sx"), sort)
    I.path.assume(n >= 0)
    I.path.facts.append((n > 0) == z3.Exists([x], h(x)))
    return KeySetV(h, n, sort)


def set_membership(v):
    if isinstance(v, KeySetV):
        return v.has
    if isinstance(v, SSetV):
        return lambda x: member_f(v.term, x)
    return None
