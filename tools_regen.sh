#!/bin/bash
# Re-run every registered check (quick tier) against /repo itself so that evidence/*.json is fresh, then validate the files.
cd "$(dirname "$0")"
rc=0
for i in 01 02 03 04 05 06 07 08 09 10 11 12 13 14 15 16 17 18 19; do
  out=$(./check C$i --tier ${1:-quick} 2>&1 | tail -1)
  echo "$out"
  case "$out" in *"exit=0") ;; *) rc=1;; esac
done
.venv/bin/python - <<'PY'
import json, sys, jsonschema
schema = json.load(open('/root/.vp/EVIDENCE.schema.json'))
man = {c['property_id']: c for c in json.load(open('MANIFEST.json'))['checks']}
bad = 0
for pid, c in sorted(man.items()):
    ev = json.load(open(f'evidence/{pid}.json'))
    try:
        jsonschema.validate(ev, schema)
    except jsonschema.ValidationError as e:
        print(pid, 'SCHEMA', e.message[:200]); bad += 1
    if ev['level'] != c['level_claimed']['category']:
        print(pid, 'LEVEL', ev['level'], '!=', c['level_claimed']['category']); bad += 1
    cov = ev['coverage']
    if ev['level'] == 'proof' and cov['obligations'] != cov['discharged']:
        print(pid, 'DISCHARGED', cov['discharged'], cov['obligations']); bad += 1
    if ev.get('violations'):
        print(pid, 'VIOLATIONS', ev['violations']); bad += 1
print('evidence files checked:', len(man), 'problems:', bad)
sys.exit(1 if bad else 0)
PY
exit $(( rc || $? ))
