#!/usr/bin/env python3
"""Regenerates MANIFEST.json from contracts/registry.py (single source of truth)."""
import json, os, sys
HERE = os.path.dirname(os.path.abspath(__file__))
sys.path.insert(0, HERE)

def main():
    from contracts import registry
    props = [json.loads(l) for l in open(os.path.join(HERE, "properties.jsonl"))]
    ids = [p["id"] for p in props]
    checks = []
    na = []
    for pid in ids:
        ent = registry.CHECKS.get(pid)
        if ent is None or not ent.get("claimed", True):
            na.append({"property_id": pid, "reason": (ent or {}).get("reason", registry.NOT_YET)})
            continue
        checks.append({
            "property_id": pid,
            "quick_cmd": f"./check {pid} --tier quick",
            "thorough_cmd": f"./check {pid} --tier thorough",
            "evidence_file": f"/verif/evidence/{pid}.json",
            "replay_cmd_template": f"./check {pid} --replay {{path}}",
            "engine": "pvc",
            "level_claimed": {"category": ent["level"], "text": ent["level_text"], "design_ref": ent.get("design_ref", "DESIGN.md section 4")},
            "level_note": ent["level_note"],
            "technique": ent["technique"],
        })
    manifest = {
        "version": 1,
        "setup_cmd": "./setup.sh",
        "hooks": {
            "guard": "FORMAK_VERIF",
            "enable": "none needed: contracts and recording wrappers live in /verif sidecars; no hook code exists in /repo",
            "baseline_off_cmd": "cd /repo && /venv/bin/python -m pytest -ra -q -p no:cacheprovider --timeout=900 --continue-on-collection-errors",
            "source_commits": [],
            "add_only": True,
        },
        "engines": [{
            "name": "pvc",
            "path": "/verif/pvc",
            "serves_properties": [c["property_id"] for c in checks],
            "kind_free_text": "own verification-condition generator: symbolic execution of the real Python source (ast) and of clang's JSON AST of the real C++ headers/templates against sidecar contracts; obligations discharged by z3 5.1 with cvc5 as second back end",
        }],
        "checks": checks,
        "notes": registry.NOTES,
        "not_applicable": na,
    }
    json.dump(manifest, open(os.path.join(HERE, "MANIFEST.json"), "w"), indent=1)
    import jsonschema
    jsonschema.validate(manifest, json.load(open("/root/.vp/MANIFEST.schema.json")))
    print("MANIFEST.json written:", len(checks), "checks,", len(na), "not claimed")

if __name__ == "__main__":
    main()
