#!/usr/bin/env python3
"""Seeded broken bodies (vacuity / sensitivity self-test of the checks).

Each catalogue entry is a textual edit of a repository file that breaks a property while keeping the
code importable.  The entry is applied to a scratch copy of the repository (mkdtemp outside /repo and
/verif, removed afterwards), the property's check is run with FORMAK_REPO pointing at the copy, and the
check must exit 1 with a VIOLATION line (naming one of the expected obligations, when listed).

usage: selftest/run.py [--only ID[,ID]] [--name substr] [--tier quick] [-j N]
"""
import argparse
import concurrent.futures as cf
import json
import os
import re
import shutil
import subprocess
import sys
import tempfile

HERE = os.path.dirname(os.path.abspath(__file__))
VERIF = os.path.dirname(HERE)
REPO = os.environ.get("FORMAK_REPO", "/repo")


def make_copy():
    d = tempfile.mkdtemp(prefix="formak-selftest-")
    for sub in ("py", "cpp"):
        shutil.copytree(os.path.join(REPO, sub), os.path.join(d, sub), ignore=shutil.ignore_patterns("__pycache__", "*.pyc"))
    return d


def run_one(entry, tier):
    d = make_copy()
    try:
        p = os.path.join(d, entry["file"])
        s = open(p).read()
        if entry.get("regex"):
            s2 = re.sub(entry["old"], entry["new"], s)
            if s2 == s:
                return entry, "STALE", "pattern not found (catalogue out of date)", ""
            s = s2
        else:
            if entry["old"] not in s:
                return entry, "STALE", "pattern not found (catalogue out of date)", ""
            s = s.replace(entry["old"], entry["new"], entry.get("count", 1))
        open(p, "w").write(s)
        env = dict(os.environ, FORMAK_REPO=d, PVC_SELFTEST="1")
        out = subprocess.run([os.path.join(VERIF, "check"), entry["property"], "--tier", tier], capture_output=True, text=True, env=env, cwd=VERIF, timeout=3600)
        txt = out.stdout + out.stderr
        viol = re.findall(r"^VIOLATION property=(\S+) replay=(\S+)(.*)$", txt, re.M)
        obl = re.findall(r"^  obligation (\S+):", txt, re.M)
        for _, rp, _ in viol:
            try:
                os.unlink(rp)
            except OSError:
                pass
        if entry.get("benign"):
            # a behaviour-preserving edit: the check must stay quiet AND keep every obligation discharged
            m = re.search(r"obligations=(\d+) discharged=(\d+)", txt)
            full = bool(m) and m.group(1) == m.group(2)
            if out.returncode == 0 and not viol and full:
                return entry, "QUIET", "exit 0, all obligations discharged", txt
            return entry, "FALSE-ALARM" if (out.returncode == 1 or viol) else "DEGRADED", f"exit {out.returncode}, violations {obl[:3]}, {m.group(0) if m else 'no summary line'}", txt
        if out.returncode == 1 and viol:
            exp = entry.get("expect")
            if exp and not any(any(e in o for e in exp) for o in obl):
                return entry, "WRONG-OBLIGATION", f"violations {obl}, expected one of {exp}", txt
            return entry, "CAUGHT", ", ".join(sorted(set(obl)))[:300], txt
        return entry, "MISSED", f"exit {out.returncode}", txt
    finally:
        shutil.rmtree(d, ignore_errors=True)


def main():
    ap = argparse.ArgumentParser()
    ap.add_argument("--only")
    ap.add_argument("--name")
    ap.add_argument("--tier", default="quick")
    ap.add_argument("-j", type=int, default=8)
    ap.add_argument("-v", action="store_true")
    ap.add_argument("--benign", action="store_true", help="run the behaviour-preserving edits (benign.json): every one must stay quiet")
    a = ap.parse_args()
    cat = json.load(open(os.path.join(HERE, "benign.json" if a.benign else "catalogue.json")))
    if a.only:
        ids = a.only.split(",")
        cat = [e for e in cat if e["property"] in ids]
    if a.name:
        cat = [e for e in cat if a.name in e["name"]]
    bad = 0
    with cf.ThreadPoolExecutor(a.j) as ex:
        for entry, status, info, txt in ex.map(lambda e: run_one(e, a.tier), cat):
            print(f"{status:17s} {entry['property']} {entry['name']}: {info}", flush=True)
            if status not in ("CAUGHT", "QUIET"):
                bad += 1
                if a.v:
                    print(txt[-3000:])
    print(f"{len(cat) - bad}/{len(cat)} " + ("behaviour-preserving edits left quiet and fully discharged" if a.benign else "seeded broken bodies caught"))
    sys.exit(1 if bad else 0)


if __name__ == "__main__":
    main()
