"""Native scenarios for the scikit-learn adapter (C16, C17)."""
from __future__ import annotations

import copy

import numpy as np

from replay import scenarios
from replay.native import repo_import


def simple_adapter(seed=0, n_sensors=2, k=1, config_kwargs=None):
    """x' = x + dt*v (+ dt*dt*a), v' = v + dt*a with sensors inserted in NON-alphabetical order."""
    from replay import shim

    py = shim.install()
    ui = repo_import("formak.ui")
    dt, x, v, a, b = (ui.Symbol(n) for n in ("dt", "x", "v", "a", "b"))
    control = {a} if k == 1 else ({a, b} if k == 2 else set())
    sm = {x: x + dt * v, v: v + dt * a if k else v}
    if k == 2:
        sm[x] = sm[x] + dt * b
    model = ui.Model(dt=dt, state={x, v}, control=control, state_model=sm)
    sensor_models = {"velocity": {"v": v}}
    sensor_noises = {"velocity": {"v": 0.5}}
    if n_sensors >= 2:
        sensor_models = {"velocity": {"v": v}, "position": {"x": x, "xv": x + v}}
        sensor_noises = {"position": {"xv": 1.5, "x": 2.0}, "velocity": {"v": 0.5}}
    pn = {a: 1.0} if k == 1 else ({b: 0.25, a: 1.0} if k == 2 else {})
    cfg = py.Config(**(config_kwargs or {"innovation_filtering": None}))
    est = py.SklearnEKFAdapter.Create(model, pn, sensor_models, sensor_noises, config=cfg)
    return py, ui, est, {"controls": sorted(c.name for c in control), "sensors": {s: sorted(m) for s, m in sensor_models.items()}}


def data_for(info, rows, seed=0):
    rng = np.random.default_rng(seed)
    width = len(info["controls"]) + sum(len(r) for r in info["sensors"].values())
    return rng.normal(0.0, 0.7, size=(rows, width))


def snapshot(est):
    p = est.get_params()
    return {"symbolic_model": id(p["symbolic_model"]), "sensor_models": copy.deepcopy({k: {r: str(e) for r, e in m.items()} for k, m in p["sensor_models"].items()}), "calibration_map": copy.deepcopy(p["calibration_map"]), "config": p["config"], "process_noise": {str(k): float(v) for k, v in p["process_noise"].items()}, "sensor_noises": {k: {str(r): float(v) for r, v in m.items()} for k, m in p["sensor_noises"].items()}}


def fit_problems(seed=0, rows=8, n_sensors=2, k=1):
    """Run the real fit; the outcome must be MinimizationFailure or a retuned estimator (C17)."""
    import math

    py, ui, est, info = simple_adapter(seed, n_sensors, k)
    exc = repo_import("formak.exceptions")
    X = data_for(info, rows, seed)
    before = snapshot(est)
    problems = []
    try:
        out = est.fit(X)
    except exc.MinimizationFailure:
        after = snapshot(est)
        return problems, info
    except Exception as e:
        after = snapshot(est)
        problems.append(f"fit raised {type(e).__name__} ({(str(e).splitlines() or [''])[0][:80]}) instead of MinimizationFailure")
        if after != before:
            problems.append(f"and left the estimator's parameters changed: sensor_noises {after['sensor_noises']} (were {before['sensor_noises']})")
        return problems, info
    after = snapshot(out)
    for key in ("symbolic_model", "sensor_models", "calibration_map", "config"):
        if after[key] != before[key]:
            problems.append(f"fit changed parameter {key}")
    if set(after["process_noise"]) != set(before["process_noise"]):
        problems.append(f"fitted process noise names {sorted(after['process_noise'])}, expected {sorted(before['process_noise'])}")
    if {s: set(m) for s, m in after["sensor_noises"].items()} != {s: set(m) for s, m in before["sensor_noises"].items()}:
        problems.append(f"fitted sensor noise names {after['sensor_noises']}, expected the names of {before['sensor_noises']}")
    vals = list(after["process_noise"].values()) + [v for m in after["sensor_noises"].values() for v in m.values()]
    if not all(math.isfinite(v) for v in vals):
        problems.append(f"non-finite fitted noise {vals}")
    if not all(v > 0 for v in after["process_noise"].values()):
        problems.append(f"fitted process noise not strictly positive: {after['process_noise']}")
    return problems, info
