"""Native scenarios for the scikit-learn adapter (C16, C17)."""
from __future__ import annotations

import copy

import numpy as np

from replay import scenarios
from replay.native import repo_import


def simple_adapter(seed=0, n_sensors=2, k=1, config_kwargs=None, noise_scale=1.0, disparate=False, calibrated=False):
    """x' = x + dt*v (+ dt*dt*a), v' = v + dt*a with sensors inserted in NON-alphabetical order."""
    from replay import shim

    py = shim.install()
    ui = repo_import("formak.ui")
    dt, x, v, a, b = (ui.Symbol(n) for n in ("dt", "x", "v", "a", "b"))
    control = {a} if k == 1 else ({a, b} if k == 2 else set())
    sm = {x: x + dt * v, v: v + dt * a if k else v}
    if k == 2:
        sm[x] = sm[x] + dt * b
    # calibrated: a calibrated model (a drag coefficient in the dynamics, a scale and a bias in the velocity sensor)
    drag, scale, bias = (ui.Symbol(n) for n in ("drag", "scale", "bias"))
    if calibrated:
        sm[v] = sm[v] - dt * drag * v
    model = ui.Model(dt=dt, state={x, v}, control=control, state_model=sm, **({"calibration": {drag, scale, bias}} if calibrated else {}))
    sensor_models = {"velocity": {"v": (scale * v + bias) if calibrated else v}}
    sensor_noises = {"velocity": {"v": 0.5}}
    if n_sensors >= 2:
        sensor_models = {"velocity": dict(sensor_models["velocity"]), "position": {"x": x, "xv": x + v}}
        sensor_noises = {"position": {"xv": 1.5, "x": 2.0}, "velocity": {"v": 0.5}}
    if disparate and n_sensors >= 2:
        # one reading of the two-reading sensor lives at a scale 1e-8 of the other (micro-radians next to metres): the innovation
        # covariance is positive definite with condition number ~1e16, and its FULL inverse defines the NIS
        sensor_models["position"] = {"x": 1e-8 * x, "xv": x + v}
        sensor_noises["position"] = {"xv": 1.5, "x": 1e-17}
    if n_sensors >= 3:
        # three sensors of three different sizes (3, 2, 1 in key order), none equal to the number of controls unless k says so
        sensor_models["combined"] = {"c2": 2 * x, "c1": x - v, "c3": 3 * v}
        sensor_noises["combined"] = {"c3": 0.75, "c1": 1.25, "c2": 1.75}
    pn = {a: 1.0} if k == 1 else ({b: 0.25, a: 1.0} if k == 2 else {})
    if noise_scale != 1.0:
        # precise sensors / quiet processes: variances far below anything a "keep it well conditioned" clamp would leave alone
        pn = {c: v * noise_scale for c, v in pn.items()}
        sensor_noises = {s: {r: v * noise_scale for r, v in m.items()} for s, m in sensor_noises.items()}
    cfg = py.Config(**(config_kwargs or {"innovation_filtering": None}))
    est = py.SklearnEKFAdapter.Create(model, pn, sensor_models, sensor_noises, **({"calibration_map": {scale: 2.0, drag: 0.125, bias: 0.25}} if calibrated else {}), config=cfg)
    return py, ui, est, {"controls": sorted(c.name for c in control), "sensors": {s: sorted(m) for s, m in sensor_models.items()}}


def data_for(info, rows, seed=0):
    rng = np.random.default_rng(seed)
    width = len(info["controls"]) + sum(len(r) for r in info["sensors"].values())
    return rng.normal(0.0, 0.7, size=(rows, width))


def snapshot(est):
    p = est.get_params()
    return {"symbolic_model": id(p["symbolic_model"]), "sensor_models": copy.deepcopy({k: {r: str(e) for r, e in m.items()} for k, m in p["sensor_models"].items()}), "calibration_map": copy.deepcopy(p["calibration_map"]), "config": p["config"], "process_noise": {str(k): float(v) for k, v in p["process_noise"].items()}, "sensor_noises": {k: {str(r): float(v) for r, v in m.items()} for k, m in p["sensor_noises"].items()}}


def fit_problems(seed=0, rows=8, n_sensors=2, k=1, calibrated=False):
    """Run the real fit; the outcome must be MinimizationFailure or a retuned estimator (C17)."""
    import math

    py, ui, est, info = simple_adapter(seed, n_sensors, k, calibrated=calibrated)
    exc = repo_import("formak.exceptions")
    X = data_for(info, rows, seed)
    before = snapshot(est)
    problems = []
    try:
        out = est.fit(X)
    except exc.MinimizationFailure:
        after = snapshot(est)
        return problems, info
    except Exception as e:
        after = snapshot(est)
        problems.append(f"fit raised {type(e).__name__} ({(str(e).splitlines() or [''])[0][:80]}) instead of MinimizationFailure")
        if after != before:
            problems.append(f"and left the estimator's parameters changed: sensor_noises {after['sensor_noises']} (were {before['sensor_noises']})")
        return problems, info
    after = snapshot(out)
    for key in ("symbolic_model", "sensor_models", "calibration_map", "config"):
        if after[key] != before[key]:
            problems.append(f"fit changed parameter {key}")
    if set(after["process_noise"]) != set(before["process_noise"]):
        problems.append(f"fitted process noise names {sorted(after['process_noise'])}, expected {sorted(before['process_noise'])}")
    if {s: set(m) for s, m in after["sensor_noises"].items()} != {s: set(m) for s, m in before["sensor_noises"].items()}:
        problems.append(f"fitted sensor noise names {after['sensor_noises']}, expected the names of {before['sensor_noises']}")
    vals = list(after["process_noise"].values()) + [v for m in after["sensor_noises"].values() for v in m.values()]
    if not all(math.isfinite(v) for v in vals):
        problems.append(f"non-finite fitted noise {vals}")
    if not all(v > 0 for v in after["process_noise"].values()):
        problems.append(f"fitted process noise not strictly positive: {after['process_noise']}")
    return problems, info


def transform_problems(seed=0, rows=5, n_sensors=2, k=1, k_edit=None, integer_data=False, config_extra=None, noise_scale=1.0, disparate=False, calibrated=False):
    """transform / mahalanobis / score vs running the exported filter by hand (predict dt=0.1, sensors in key order).
    integer_data: the same check on a data matrix of INTEGER dtype (a finite data matrix like any other; the by-hand run uses its values as floats)."""
    import math

    # config_extra: further Config fields at NON-default values (the adapter's step is fixed, whatever max_dt_sec says)
    py, ui, est, info = simple_adapter(seed, n_sensors, k, {"innovation_filtering": k_edit, **(config_extra or {})}, noise_scale=noise_scale, disparate=disparate, calibrated=calibrated)
    X = data_for(info, rows, seed)
    if disparate:
        X[:, len(info["controls"])] *= 1e-8  # the fine reading's values are of its own scale
    Xin = X
    if integer_data:
        Xin = np.rint(X * 3).astype(np.int64)
        X = Xin.astype(float)
    problems = []
    before = snapshot(est)
    try:
        T = est.transform(Xin)
        T2 = est.transform(Xin)
        M = est.mahalanobis(Xin)
        score, expl = est.score(Xin, explain_score=True)
        score2 = est.score(Xin)
    except Exception as e:
        return [f"{'integer-typed data matrix: ' if integer_data else ''}{type(e).__name__}: {(str(e).splitlines() or [''])[0][:160]}"], info
    if snapshot(est) != before:
        problems.append("transform/mahalanobis/score changed the estimator's parameters")
    ekf = est.export_python()
    state, cov = ekf.State(), ekf.Covariance()
    keys = sorted(info["sensors"])
    want = []
    kk = len(info["controls"])
    for i in range(rows):
        ctl = ekf.Control.from_data(X[i, :kk].reshape((kk, 1)).copy())
        state, cov = ekf.process_model(0.1, state, cov, ctl)
        off = kk
        row = []
        for key in keys:
            m = len(info["sensors"][key])
            z = ekf.make_reading(key, data=X[i, off : off + m].reshape((m, 1)).copy())
            off += m
            state, cov = ekf.sensor_model(state, cov, sensor_key=key, sensor_reading=z)
            nu, S = ekf.innovations[key], ekf.sensor_prediction_uncertainty[key]
            row.append(float((nu.T @ np.linalg.inv(S) @ nu)[0, 0]))
        want.append(row)
    want = np.array(want)
    if T.shape != want.shape:
        problems.append(f"transform shape {T.shape}, expected {want.shape}")
    elif not np.allclose(T, want, rtol=1e-9, atol=1e-12):
        i, j = np.argwhere(~np.isclose(T, want, rtol=1e-9, atol=1e-12))[0]
        problems.append(f"transform[{i}][{j}] = {T[i, j]!r} but running the exported filter by hand (sensors in key order {keys}) gives NIS {want[i, j]!r}")
    if not np.array_equal(T, T2):
        problems.append("repeating transform gives different values")
    if np.any(T < 0):
        problems.append("negative NIS")
    if M.shape != (want.size,) or not np.allclose(M, want.flatten(), rtol=1e-9, atol=1e-12):
        problems.append("mahalanobis is not transform flattened")
    d = want.flatten()
    bias = float(np.mean(np.sqrt(d)) ** 2)
    var = float((1.0 / d.sum() + d.sum()) / 2.0)
    size = sum(v * v for v in before["process_noise"].values()) + sum(v * v for m in before["sensor_noises"].values() for v in m.values())
    total = 10.0 * bias + 1.0 * var + 0.01 * size
    if not math.isclose(score, total, rel_tol=1e-9) or not math.isclose(score2, total, rel_tol=1e-9):
        problems.append(f"score {score} is not 10*bias + 1*variance + 0.01*size = {total}")
    if not (math.isclose(expl[1], bias, rel_tol=1e-9) and math.isclose(expl[3], var, rel_tol=1e-9) and math.isclose(expl[5], size, rel_tol=1e-9) and tuple(expl[0::2]) == (10.0, 1.0, 0.01)):
        problems.append(f"explain_score components {expl} differ from (10, {bias}, 1, {var}, 0.01, {size})")
    return problems, info


def hand_run(est, info, X):
    """NIS per row and sensor from running the estimator's EXPORTED filter by hand (predict dt=0.1, sensors in key order)."""
    ekf = est.export_python()
    state, cov = ekf.State(), ekf.Covariance()
    keys = sorted(info["sensors"])
    kk = len(info["controls"])
    want = []
    for i in range(X.shape[0]):
        ctl = ekf.Control.from_data(X[i, :kk].reshape((kk, 1)).copy())
        state, cov = ekf.process_model(0.1, state, cov, ctl)
        off = kk
        row = []
        for key in keys:
            m = len(info["sensors"][key])
            z = ekf.make_reading(key, data=X[i, off : off + m].reshape((m, 1)).copy())
            off += m
            state, cov = ekf.sensor_model(state, cov, sensor_key=key, sensor_reading=z)
            nu, S = ekf.innovations[key], ekf.sensor_prediction_uncertainty[key]
            row.append(float((nu.T @ np.linalg.inv(S) @ nu)[0, 0]))
        want.append(row)
    return np.array(want)


def transform_sequence_problems(seed=0, rows=6, n_sensors=2, k=1):
    """STATEFUL: one estimator is transformed, reconfigured through set_params (editing threshold, then noise), and transformed
    again on data with an outlier row; after every step transform must equal the hand-run of the filter export_python() returns."""
    py, ui, est, info = simple_adapter(seed, n_sensors, k, {"innovation_filtering": None})
    X = data_for(info, rows, seed)
    X2 = X.copy()
    X2[rows // 2, len(info["controls"]) :] += 40.0  # an outlier row followed by ordinary rows
    problems = []
    try:
        steps = [("fresh estimator", lambda: None), ("after set_params(innovation_filtering=1.0)", lambda: est.set_params(innovation_filtering=1.0)), ("after set_params(innovation_filtering=None)", lambda: est.set_params(innovation_filtering=None))]
        first_noise = sorted(est.process_noise, key=str)[0] if est.process_noise else None
        if first_noise is not None:
            steps.append(("after scaling one process noise through set_params", lambda: est.set_params(process_noise={**est.process_noise, first_noise: est.process_noise[first_noise] * 9.0})))
        for label, act in steps:
            act()
            T = est.transform(X2)
            want = hand_run(est, info, X2)
            if T.shape != want.shape or not np.allclose(T, want, rtol=1e-9, atol=1e-12):
                problems.append(f"{label}: transform differs from the hand-run of the exported filter (config {est.get_params()['config']})")
                break
    except Exception as e:
        problems.append(f"sequence raised {type(e).__name__}: {(str(e).splitlines() or [''])[0][:160]}")
    return problems, info


def fit_with_failing_optimiser(seed=0):
    """D-opt boundary: whatever the optimiser answers, fit either returns or raises MinimizationFailure.  The optimiser is replaced
    by a stub reporting failure (after calling the objective once, as scipy would)."""
    py, ui, est, info = simple_adapter(seed, 2, 1)
    exc = repo_import("formak.exceptions")
    X = data_for(info, 6, seed)
    before = snapshot(est)

    class Result:
        success = False
        message = "stub optimiser: iteration limit reached"

        def __init__(self, x):
            self.x = x

    def stub(fun, x0, *a, **kw):
        fun(np.array(x0, dtype=float))
        return Result(np.array(x0, dtype=float))

    old = py.minimize
    py.minimize = stub
    try:
        try:
            est.fit(X)
            return ["fit returned although the optimiser reported failure"], info
        except exc.MinimizationFailure:
            pass
        except Exception as e:
            return [f"optimiser reports failure: fit raised {type(e).__name__} ({(str(e).splitlines() or [''])[0][:80]}) instead of MinimizationFailure"], info
    finally:
        py.minimize = old
    if snapshot(est) != before:
        return ["a failed fit left the estimator's parameters changed"], info
    return [], info


def fit_with_succeeding_optimiser(seed=0, config_kwargs=None, calibrated=False):
    """D-opt boundary, success side: the optimiser is replaced by a stub that calls the objective twice and reports success at a
    point near x0, so fit ALWAYS returns; what it returns must have the model, sensor models, calibration and CONFIGURATION it
    started with (every Config field given a non-default value)."""
    config_kwargs = config_kwargs or {"common_subexpression_elimination": False, "extra_validation": True, "max_dt_sec": 0.05, "innovation_filtering": 4.0}
    try:
        py, ui, est, info = simple_adapter(seed, 2, 1, config_kwargs=config_kwargs, calibrated=calibrated)
    except Exception as e:
        return [f"constructing the estimator with Config({config_kwargs}) raised {type(e).__name__}: {(str(e).splitlines() or [''])[0][:100]}"], {}
    X = data_for(info, 6, seed)
    before = snapshot(est)

    class Result:
        success = True
        message = "stub optimiser: converged"

        def __init__(self, x):
            self.x = x

    def stub(fun, x0, *a, **kw):
        x0 = np.array(x0, dtype=float)
        fun(x0)
        fun(x0 * 1.25)
        return Result(x0 * 1.25)

    old = py.minimize
    py.minimize = stub
    problems = []
    try:
        try:
            out = est.fit(X)
        except Exception as e:
            return [f"optimiser reports success with Config({config_kwargs}): fit raised {type(e).__name__} ({(str(e).splitlines() or [''])[0][:80]})"], info
    finally:
        py.minimize = old
    after = snapshot(out)
    for key in ("symbolic_model", "sensor_models", "calibration_map", "config"):
        if after[key] != before[key]:
            problems.append(f"a successful fit changed parameter {key}: {after[key]} (was {before[key]})")
    want_pn = {k: v * 1.25 for k, v in before["process_noise"].items()}
    if any(abs(after["process_noise"].get(k, float('nan')) - v) > 1e-12 for k, v in want_pn.items()):
        problems.append(f"fitted process noise {after['process_noise']} is not the optimiser's solution {want_pn}")
    return problems, info


def flatten_round_trip_problems(seed=0):
    """_flatten_scoring_params / _inverse_flatten_scoring_params on estimators of every shape: 0-2 controls x 1-3 sensors of sizes 3, 2, 1
    (so that the number of controls equals, exceeds and falls short of a sensor's size).  Expected values are written from the
    definition: [process noise by control name] + [each sensor in key order: its noises by reading name]."""
    problems = []
    for k in (0, 1, 2):
        for ns in (1, 2, 3):
            py, ui, est, info = simple_adapter(seed, ns, k)
            p = est.get_params()
            want = [float(v) for _, v in sorted(((str(c), v) for c, v in p["process_noise"].items()))]
            for key in sorted(p["sensor_noises"]):
                want += [float(v) for _, v in sorted((str(r), v) for r, v in p["sensor_noises"][key].items())]
            try:
                got = [float(v) for v in est._flatten_scoring_params()]
            except Exception as e:
                problems.append(f"_flatten_scoring_params ({k} controls, {ns} sensors) raised {type(e).__name__}: {e}")
                continue
            if got != want:
                problems.append(f"_flatten_scoring_params ({k} controls, {ns} sensors) = {got}, expected {want}")
                continue
            fresh = [10.0 + i for i in range(len(want))]
            try:
                out = est._inverse_flatten_scoring_params(list(fresh))
            except Exception as e:
                problems.append(f"_inverse_flatten_scoring_params ({k} controls, sensors of sizes {[len(m) for _, m in sorted(p['sensor_noises'].items())]}) raised {type(e).__name__}: {e}")
                continue
            pos = 0
            exp_pn = {}
            for c in sorted(str(c) for c in p["process_noise"]):
                exp_pn[c] = fresh[pos]
                pos += 1
            exp_sn = {}
            for key in sorted(p["sensor_noises"]):
                exp_sn[key] = {}
                for r in sorted(str(r) for r in p["sensor_noises"][key]):
                    exp_sn[key][r] = fresh[pos]
                    pos += 1
            got_pn = {str(c): float(v) for c, v in out["process_noise"].items()}
            got_sn = {key: {str(r): float(v) for r, v in m.items()} for key, m in out["sensor_noises"].items()}
            if got_pn != exp_pn or got_sn != exp_sn:
                problems.append(f"_inverse_flatten_scoring_params({fresh}) with {k} controls and sensors of sizes {[len(m) for _, m in sorted(p['sensor_noises'].items())]} gave process noise {got_pn}, sensor noises {got_sn}; by name and key order it is {exp_pn}, {exp_sn}")
    return problems
