"""Native fault injection for C14: valid definitions and every listed structural fault, through every entry point."""
from __future__ import annotations

import contextlib
import io
import os
import random
import tempfile
import types

import sympy

from replay import scenarios
from replay.native import REPO, repo_import

ENTRY_POINTS = ["ui.Model", "python.compile", "python.compile_ekf", "cpp.compile", "cpp.compile_ekf"]


class Definition:
    def __init__(self, sc, container="set"):
        self.dt = sc.dt
        mk = (lambda xs: set(xs)) if container == "set" else (lambda xs: sorted(xs, key=lambda s: s.name, reverse=True))
        self.state, self.control, self.calibration = mk(sc.state), mk(sc.control), mk(sc.calibration)
        self.state_model = dict(sc.state_model)
        self.calibration_map = dict(sc.calibration_map)
        self.process_noise = dict(sc.process_noise)
        self.sensor_models = {k: dict(v) for k, v in sc.sensor_models.items()}
        self.sensor_noises = {k: dict(v) for k, v in sc.sensor_noises.items()}
        self.sc = sc


def faults(d, rng):
    """Yield (name, applicable entry points, mutator).  Each mutator injects ONE structural fault of a listed kind."""
    S, U, C = list(d.sc.state), list(d.sc.control), list(d.sc.calibration)
    all_ep = set(ENTRY_POINTS)
    ekf_ep = {"python.compile_ekf", "cpp.compile_ekf"}
    after_ui = all_ep - {"ui.Model"}

    def add_to(container, x):
        if isinstance(container, set):
            container.add(x)
        else:
            container.append(x)

    if S and U:
        yield "overlap state/control", all_ep, lambda dd: add_to(dd.control, S[0])
    if S and C:
        yield "overlap state/calibration", all_ep, lambda dd: add_to(dd.calibration, S[-1])
    if U and C:
        yield "overlap calibration/control", all_ep, lambda dd: add_to(dd.control, C[0])
    for pos in sorted({0, len(S) - 1}):
        yield f"state {S[pos].name} has no update expression", all_ep, lambda dd, pos=pos: dd.state_model.pop(S[pos])
    yield "update expression for an undeclared state", all_ep, lambda dd: dd.state_model.__setitem__(sympy.Symbol("ghost_state"), sympy.Integer(1))
    yield f"update expression for an undeclared state instead of {S[-1].name} (same size)", all_ep, lambda dd: (dd.state_model.pop(S[-1]), dd.state_model.__setitem__(sympy.Symbol("ghost_state"), sympy.Integer(1)))
    if U:
        yield f"surplus update expression keyed by the declared control {U[0].name}", all_ep, lambda dd: dd.state_model.__setitem__(U[0], U[0] + 1)
        yield f"update expression for control {U[-1].name} instead of state {S[0].name} (same size)", all_ep, lambda dd: (dd.state_model.pop(S[0]), dd.state_model.__setitem__(U[-1], U[-1] * 2))
    if C:
        yield f"surplus update expression keyed by the declared calibration symbol {C[0].name}", all_ep, lambda dd: dd.state_model.__setitem__(C[0], C[0] + 1)
    if C:
        for pos in sorted({0, len(C) - 1}):
            yield f"calibration value for {C[pos].name} missing", after_ui, lambda dd, pos=pos: dd.calibration_map.pop(C[pos])
        yield "calibration value for an undeclared symbol (same size)", after_ui, lambda dd: (dd.calibration_map.pop(C[0]), dd.calibration_map.__setitem__(sympy.Symbol("ghost_cal"), 1.0))
        yield "calibration map empty", after_ui, lambda dd: dd.calibration_map.clear()
    yield "extra calibration value", after_ui, lambda dd: dd.calibration_map.__setitem__(sympy.Symbol("ghost_cal2"), 2.0)
    if U:
        for pos in sorted({0, len(U) - 1}):
            yield f"process noise for control {U[pos].name} missing", ekf_ep, lambda dd, pos=pos: dd.process_noise.pop(U[pos])
            yield f"negative process noise for {U[pos].name}", ekf_ep, lambda dd, pos=pos: dd.process_noise.__setitem__(U[pos], -0.5)
            if pos == 0:
                # the same fault with the number given as a numpy scalar or a sympy number (a negative variance whatever its class)
                import numpy as _np

                yield f"negative process noise for {U[pos].name} given as numpy.float32", ekf_ep, lambda dd, pos=pos: dd.process_noise.__setitem__(U[pos], _np.float32(-0.5))
                yield f"negative process noise for {U[pos].name} given as numpy.int64", ekf_ep, lambda dd, pos=pos: dd.process_noise.__setitem__(U[pos], _np.int64(-2))
                yield f"negative process noise for {U[pos].name} given as a sympy Rational", ekf_ep, lambda dd, pos=pos: dd.process_noise.__setitem__(U[pos], sympy.Rational(-1, 2))
    yield "process noise for a state symbol", ekf_ep, lambda dd: dd.process_noise.__setitem__(S[0], 1.0)
    if U:
        yield f"process noise for a state symbol instead of control {U[-1].name} (same size)", ekf_ep, lambda dd: (dd.process_noise.pop(U[-1]), dd.process_noise.__setitem__(S[0], 1.0))
        if C:
            yield f"process noise for a calibration symbol instead of control {U[0].name} (same size)", ekf_ep, lambda dd: (dd.process_noise.pop(U[0]), dd.process_noise.__setitem__(C[0], 1.0))
    if len(U) >= 2:
        yield f"process noise keyed by the pair ({U[0].name}, {U[1].name}) instead of control {U[-1].name} (same size)", ekf_ep, lambda dd: (dd.process_noise.pop(U[-1]), dd.process_noise.__setitem__((U[0], U[1]), 0.0))
        yield "extra process noise entry keyed by a pair of declared controls", ekf_ep, lambda dd: dd.process_noise.__setitem__((U[0], U[1]), 0.25)
    if U:
        yield f"process noise for an undeclared symbol spelled like the control {U[0].name} instead of it (same size)", ekf_ep, lambda dd: (dd.process_noise.pop(U[0]), dd.process_noise.__setitem__(sympy.Symbol(U[0].name, **({"real": True} if U[0].is_real is None else {})) if U[0].is_real is None else sympy.Symbol(U[0].name), 1.0))
    yield "process noise for an undeclared symbol", ekf_ep, lambda dd: dd.process_noise.__setitem__(sympy.Symbol("ghost_u"), 1.0)
    yield "process noise keyed by a string", ekf_ep, lambda dd: dd.process_noise.__setitem__("not_a_symbol", 1.0)
    for sname, sm in d.sensor_models.items():
        rn = sorted(sm)
        for pos in sorted({0, len(rn) - 1}):
            r = rn[pos]
            if U:
                yield f"sensor {sname}.{r} depends on control {U[0].name}", ekf_ep, lambda dd, sname=sname, r=r: dd.sensor_models[sname].__setitem__(r, dd.sensor_models[sname][r] + 3 * U[0])
            # two foreign symbols in ONE reading (the refusal's own message has to name both)
            yield f"sensor {sname}.{r} depends on two undeclared symbols", ekf_ep, lambda dd, sname=sname, r=r: dd.sensor_models[sname].__setitem__(r, dd.sensor_models[sname][r] + sympy.Symbol("ghost_sym") * sympy.Symbol("ghost_sym2"))
            if U:
                yield f"sensor {sname}.{r} depends on control {U[0].name} and on an undeclared symbol", ekf_ep, lambda dd, sname=sname, r=r: dd.sensor_models[sname].__setitem__(r, dd.sensor_models[sname][r] + 3 * U[0] + sympy.Symbol("ghost_sym"))
            if len(U) >= 2:
                yield f"sensor {sname}.{r} depends on the controls {U[0].name} and {U[1].name}", ekf_ep, lambda dd, sname=sname, r=r: dd.sensor_models[sname].__setitem__(r, dd.sensor_models[sname][r] + 3 * U[0] - U[1])
            yield f"sensor {sname}.{r} depends on an undeclared symbol", ekf_ep, lambda dd, sname=sname, r=r: dd.sensor_models[sname].__setitem__(r, dd.sensor_models[sname][r] + sympy.Symbol("ghost_sym"))
            # an undeclared symbol that merely SHARES ITS NAME with a declared state: Symbol('x', positive=True) is not Symbol('x')
            yield f"sensor {sname}.{r} depends on an undeclared symbol spelled like the state {S[0].name}", ekf_ep, lambda dd, sname=sname, r=r: dd.sensor_models[sname].__setitem__(r, dd.sensor_models[sname][r] + 2 * sympy.Symbol(S[0].name, **({"positive": True} if S[0].is_positive is None else {})) if S[0].is_positive is None else dd.sensor_models[sname][r] + 2 * sympy.Symbol(S[0].name))
            yield f"sensor noise for reading {sname}.{r} missing", ekf_ep, lambda dd, sname=sname, r=r: dd.sensor_noises[sname].pop(r)
        yield f"sensor noise for an unknown reading of {sname}", ekf_ep, lambda dd, sname=sname: dd.sensor_noises[sname].__setitem__("ghost_reading", 1.0)
        yield f"sensor noise for an unknown reading instead of {sname}.{rn[-1]} (same size)", ekf_ep, lambda dd, sname=sname, r=rn[-1]: (dd.sensor_noises[sname].pop(r), dd.sensor_noises[sname].__setitem__("ghost_reading", 1.0))
        # ... and an unknown reading whose name is a PART of a declared one (or of their listing): known means equal to a declared name
        if len(rn[-1]) >= 2:
            yield f"sensor noise for {rn[-1][:-1]!r}, a prefix of the reading name, instead of {sname}.{rn[-1]} (same size)", ekf_ep, lambda dd, sname=sname, r=rn[-1]: (dd.sensor_noises[sname].pop(r), dd.sensor_noises[sname].__setitem__(r[:-1], 1.0))
        yield f"sensor noise for ', ' (part of a listing of the readings) instead of {sname}.{rn[-1]} (same size)", ekf_ep, lambda dd, sname=sname, r=rn[-1]: (dd.sensor_noises[sname].pop(r), dd.sensor_noises[sname].__setitem__(", ", 1.0))
        yield f"no noise for sensor {sname}", ekf_ep, lambda dd, sname=sname: dd.sensor_noises.pop(sname)
    yield "noise for an undeclared sensor", ekf_ep, lambda dd: dd.sensor_noises.__setitem__("ghost_sensor", {"x": 1.0})
    first = sorted(d.sensor_models)[0]
    yield f"noise for an undeclared sensor instead of {first} (same size)", ekf_ep, lambda dd: dd.sensor_noises.__setitem__("ghost_sensor", dd.sensor_noises.pop(first))


@contextlib.contextmanager
def _quiet_cwd(path):
    old = os.getcwd()
    os.chdir(path)
    buf = io.StringIO()
    try:
        with contextlib.redirect_stdout(buf), contextlib.redirect_stderr(buf):
            yield
    finally:
        os.chdir(old)


def run_entry_points(d, only=None):
    """Returns {entry point: None (accepted) | 'ExcType: message'}; later entry points are skipped when ui.Model refuses."""
    from replay import shim

    py = shim.install()
    ui = repo_import("formak.ui")
    cpp = repo_import("formak.cpp")
    res = {}
    with _quiet_cwd(REPO):
        try:
            model = ui.Model(dt=d.dt, state=d.state, control=d.control, state_model=d.state_model, calibration=d.calibration)
            res["ui.Model"] = None
        except Exception as e:
            res["ui.Model"] = f"{type(e).__name__}: {(str(e).splitlines() or [''])[0][:120]}"
            return res
        tmp = tempfile.mkdtemp(prefix="formak-c14-")
        ns = types.SimpleNamespace(header=os.path.join(tmp, "generated", "m.h"), source=os.path.join(tmp, "generated", "m.cpp"), namespace="ns")
        os.makedirs(os.path.dirname(ns.header), exist_ok=True)
        old_argparse = cpp._compile_argparse
        cpp._compile_argparse = lambda: ns
        try:
            calls = {
                "python.compile": lambda: py.compile(model, calibration_map=dict(d.calibration_map)),
                "python.compile_ekf": lambda: py.compile_ekf(model, dict(d.process_noise), {k: dict(v) for k, v in d.sensor_models.items()}, {k: dict(v) for k, v in d.sensor_noises.items()}, calibration_map=dict(d.calibration_map), config={"innovation_filtering": None}),
                "cpp.compile": lambda: cpp.compile(model, calibration_map=dict(d.calibration_map)),
                "cpp.compile_ekf": lambda: cpp.compile_ekf(model, dict(d.process_noise), {k: dict(v) for k, v in d.sensor_models.items()}, {k: dict(v) for k, v in d.sensor_noises.items()}, calibration_map=dict(d.calibration_map)),
            }
            for name, fn in calls.items():
                if only and name not in only:
                    continue
                for p in (ns.header, ns.source):
                    if os.path.exists(p):
                        os.unlink(p)
                try:
                    out = fn()
                    wrote = os.path.exists(ns.header) or os.path.exists(ns.source)
                    res[name] = None
                    if name.startswith("cpp.") and not (getattr(out, "success", False) and wrote):
                        res[name] = "NoOutput: generator reported success=False / wrote no files"
                except Exception as e:
                    wrote = os.path.exists(ns.header) or os.path.exists(ns.source)
                    res[name] = f"{type(e).__name__}: {(str(e).splitlines() or [''])[0][:120]}" + (" [but a source file was written]" if wrote and name.startswith("cpp.") else "")
        finally:
            cpp._compile_argparse = old_argparse
            import shutil

            shutil.rmtree(tmp, ignore_errors=True)
    return res


def sweep(seed, shapes, containers=("set", "list"), pairs=4):
    """Returns (problems, stats)."""
    import copy

    rng = random.Random(seed)
    problems = []
    stats = {"valid_definitions": 0, "single_faults": 0, "fault_pairs": 0}
    for shape in shapes:
        n, c, k, sens = shape
        for cont in containers:
            sc = scenarios.Scenario(n, c, k, sens, seed=seed)
            base = Definition(sc, cont)
            stats["valid_definitions"] += 1
            res = run_entry_points(base)
            for ep in ENTRY_POINTS:
                if res.get(ep, "missing") is not None:
                    problems.append({"kind": "valid definition refused", "entry_point": ep, "error": res.get(ep), "shape": list(shape), "container": cont, "fault": None})
            flist = list(faults(base, rng))
            for name, eps, mut in flist:
                d = Definition(sc, cont)
                mut(d)
                stats["single_faults"] += 1
                res = run_entry_points(d)
                if res.get("ui.Model") is not None:
                    continue  # refused at definition time
                for ep in eps - {"ui.Model"}:
                    if res.get(ep, "missing") is None:
                        problems.append({"kind": "invalid definition accepted", "entry_point": ep, "fault": name, "shape": list(shape), "container": cont})
                if "ui.Model" in eps and len(eps) == len(ENTRY_POINTS):
                    problems.append({"kind": "invalid definition accepted", "entry_point": "ui.Model", "fault": name, "shape": list(shape), "container": cont})
            for _ in range(pairs):
                (n1, e1, m1), (n2, e2, m2) = rng.sample(flist, 2)
                d = Definition(sc, cont)
                try:
                    m1(d)
                    m2(d)
                except Exception:
                    continue
                stats["fault_pairs"] += 1
                res = run_entry_points(d)
                if res.get("ui.Model") is not None:
                    continue
                for ep in (e1 | e2) - {"ui.Model"}:
                    if res.get(ep, "missing") is None:
                        problems.append({"kind": "invalid definition accepted", "entry_point": ep, "fault": f"{n1} + {n2}", "shape": list(shape), "container": cont})
    return problems, stats
