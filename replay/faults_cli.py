"""Run one native fault-injection sweep in a separate process (so that it overlaps with the contract verification) and print JSON.
usage: python -m replay.faults_cli <seed> <containers csv> <pairs> <shape json> [<shape json> ...]"""
import json
import sys

from replay import faults


def main():
    seed, conts, pairs = int(sys.argv[1]), tuple(sys.argv[2].split(",")), int(sys.argv[3])
    shapes = [tuple(s[:3]) + (s[3],) for s in (json.loads(a) for a in sys.argv[4:])]
    problems, stats = faults.sweep(seed, shapes, containers=conts, pairs=pairs)
    print("FAULTSJSON " + json.dumps({"problems": problems, "stats": stats}))


if __name__ == "__main__":
    main()
