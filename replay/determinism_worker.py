"""One generation of one definition in THIS process (its PYTHONHASHSEED is set by the parent): prints a JSON digest.

usage: determinism_worker.py <n> <c> <k> <sensors csv> <seed> <container set|list> <order_seed> [cse 0|1]
The definition is the same for every (container, order_seed): only the declaration order of the symbol containers and the
insertion order of every dict (state_model, process_noise, sensor_models and their readings, sensor_noises, calibration_map) change.
"""
import contextlib
import hashlib
import io
import json
import os
import random
import sys

HERE = os.path.dirname(os.path.abspath(__file__))
sys.path.insert(0, os.path.dirname(HERE))


def permuted(d, rng):
    items = list(d.items())
    rng.shuffle(items)
    return dict(items)


def main():
    n, c, k = int(sys.argv[1]), int(sys.argv[2]), int(sys.argv[3])
    sensors = [int(x) for x in sys.argv[4].split(",") if x]
    seed, container, order_seed = int(sys.argv[5]), sys.argv[6], int(sys.argv[7])
    cse = (sys.argv[8] == "1") if len(sys.argv) > 8 else True
    warmup = (sys.argv[9] == "1") if len(sys.argv) > 9 else False
    from replay import scenarios, shim
    from replay.native import REPO, repo_import

    need = max([n, c, k] + sensors)
    pool = scenarios.CASE_POOL[: max(2, 2 * ((need + 1) // 2))]  # small pool: names differing only in capitalisation always occur
    sc = scenarios.Scenario(n, c, k, sensors, seed=seed, pool=pool)
    # redundant entries: two readings of one sensor with IDENTICAL model expressions and equal noise (two altimeters), two states with
    # identical update expressions - a sort that falls back to declaration order on such ties is not deterministic
    for key, m in sc.sensor_models.items():
        rn = sorted(m)
        if len(rn) >= 2:
            m[rn[1]] = m[rn[0]]
            sc.sensor_noises[key][rn[1]] = sc.sensor_noises[key][rn[0]]
            break
    if n >= 3:
        st = sorted(sc.state, key=lambda s: s.name)
        sc.state_model[st[2]] = sc.state_model[st[1]]
    # an update written in a form simplify() shortens (sin^2 + cos^2, a perfect square under a root sharing sin/cos with the rest):
    # generating from the definition as written and from a pre-simplified copy of it give different text
    st0 = sorted(sc.state, key=lambda s: s.name)
    import sympy as _sp

    h, w = st0[0], st0[-1]
    sc.state_model[st0[0]] = sc.state_model[st0[0]] + (_sp.sin(h) ** 2 + _sp.cos(h) ** 2) * w + _sp.sqrt((w * _sp.cos(h)) ** 2 + (w * _sp.sin(h)) ** 2 + 1)
    rng = random.Random(order_seed)

    def decl(xs):
        xs = list(xs)
        rng.shuffle(xs)
        return set(xs) if container == "set" else xs

    py = shim.install()
    ui = repo_import("formak.ui")
    cpp = repo_import("formak.cpp")
    out = {}
    buf = io.StringIO()
    old = os.getcwd()
    os.chdir(REPO)
    try:
        with contextlib.redirect_stdout(buf):
            if warmup:
                # something else was generated earlier in this process: a definition with the OPPOSITE calibration / control presence
                other = scenarios.Scenario(2, 0 if c else 1, 0 if k else 1, [1], seed=seed + 5)
                om = other.ui_model(ui, "set")
                og = cpp._generate_ekf_function_bodies("x/generated/formak/model.h", "generated", om, dict(other.process_noise), {a: dict(b) for a, b in other.sensor_models.items()}, {a: dict(b) for a, b in other.sensor_noises.items()}, dict(other.calibration_map), cpp.Config())
                "\n".join(cpp.header_from_ast(generator=og))
                "\n".join(cpp.source_from_ast(generator=og))
            model = ui.Model(dt=sc.dt, state=decl(sc.state), control=decl(sc.control), calibration=decl(sc.calibration), state_model=permuted(sc.state_model, rng))
            pn = permuted(sc.process_noise, rng)
            sm = {key: permuted(v, rng) for key, v in permuted(sc.sensor_models, rng).items()}
            sn = {key: permuted(v, rng) for key, v in permuted(sc.sensor_noises, rng).items()}
            cm = permuted(sc.calibration_map, rng)
            cfg = cpp.Config(common_subexpression_elimination=cse)
            gen = cpp._generate_ekf_function_bodies("x/generated/formak/model.h", "generated", model, dict(pn), {a: dict(b) for a, b in sm.items()}, {a: dict(b) for a, b in sn.items()}, dict(cm), cfg)
            header = "\n".join(cpp.header_from_ast(generator=gen))
            source = "\n".join(cpp.source_from_ast(generator=gen))
            # the same definition generated a SECOND time in this process (module-level state must not leak into the text)
            # ... on a "slow machine": every reading of the clock is 7 s after the previous one while this second generation runs
            import time as _time

            _real = {nm: getattr(_time, nm) for nm in ("monotonic", "time", "perf_counter", "process_time")}
            _tick = [0.0]

            def _fast(base):
                def f():
                    _tick[0] += 7.0
                    return base() + _tick[0]

                return f

            for nm, fn in _real.items():
                setattr(_time, nm, _fast(fn))
            try:
                genb = cpp._generate_ekf_function_bodies("x/generated/formak/model.h", "generated", model, dict(pn), {a: dict(b) for a, b in sm.items()}, {a: dict(b) for a, b in sn.items()}, dict(cm), cfg)
                header_b = "\n".join(cpp.header_from_ast(generator=genb))
                source_b = "\n".join(cpp.source_from_ast(generator=genb))
            finally:
                for nm, fn in _real.items():
                    setattr(_time, nm, fn)
            gen2 = cpp._generate_model_function_bodies("x/generated/formak/model.h", "generated", model, dict(cm), cfg)
            header2 = "\n".join(cpp.header_from_ast(generator=gen2))
            source2 = "\n".join(cpp.source_from_ast(generator=gen2))
            # generator options away from what the other generations use: no namespace given (the command line's default), filtering
            # off, another maximum step - whatever text the generator invents for an omitted option must not depend on the process
            cfg3 = cpp.Config(common_subexpression_elimination=cse, innovation_filtering=None, max_dt_sec=0.25)
            gen3 = cpp._generate_ekf_function_bodies("x/generated/formak/model.h", None, model, dict(pn), {a: dict(b) for a, b in sm.items()}, {a: dict(b) for a, b in sn.items()}, dict(cm), cfg3)
            header3 = "\n".join(cpp.header_from_ast(generator=gen3))
            source3 = "\n".join(cpp.source_from_ast(generator=gen3))
            pm = py.compile(model, calibration_map=dict(cm), config={"common_subexpression_elimination": cse})
            ekf = py.compile_ekf(model, dict(pn), {a: dict(b) for a, b in sm.items()}, {a: dict(b) for a, b in sn.items()}, calibration_map=dict(cm), config={"common_subexpression_elimination": cse})
            # ... and the C++ generated once more from the SAME definition objects AFTER the python back end has compiled them
            genc = cpp._generate_ekf_function_bodies("x/generated/formak/model.h", "generated", model, dict(pn), {a: dict(b) for a, b in sm.items()}, {a: dict(b) for a, b in sn.items()}, dict(cm), cfg)
            header_c = "\n".join(cpp.header_from_ast(generator=genc))
            source_c = "\n".join(cpp.source_from_ast(generator=genc))
    finally:
        os.chdir(old)
    out["header_sha256"] = hashlib.sha256(header.encode()).hexdigest()
    out["source_sha256"] = hashlib.sha256(source.encode()).hexdigest()
    out["regenerated_header_sha256"] = hashlib.sha256(header_b.encode()).hexdigest()
    out["regenerated_source_sha256"] = hashlib.sha256(source_b.encode()).hexdigest()
    out["after_python_compile_header_sha256"] = hashlib.sha256(header_c.encode()).hexdigest()
    out["after_python_compile_source_sha256"] = hashlib.sha256(source_c.encode()).hexdigest()
    out["no_namespace_header_sha256"] = hashlib.sha256(header3.encode()).hexdigest()
    out["no_namespace_source_sha256"] = hashlib.sha256(source3.encode()).hexdigest()
    out["model_header_sha256"] = hashlib.sha256(header2.encode()).hexdigest()
    out["model_source_sha256"] = hashlib.sha256(source2.encode()).hexdigest()
    names = lambda xs: [str(x) for x in xs]
    lay = {"Model.arglist": names(pm.arglist), "Model.arglist_state": names(pm.arglist_state), "Model.arglist_calibration": names(pm.arglist_calibration), "Model.arglist_control": names(pm.arglist_control)}
    lay["Model.calibration_vector"] = [float(x) for x in pm.calibration_vector.flatten()] if getattr(pm, "calibration_vector", None) is not None else None
    lay["EKF.State"] = names(ekf.State._arglist)
    lay["EKF.Covariance"] = names(ekf.Covariance._arglist)
    lay["EKF.Control"] = names(ekf.Control._arglist) if sc.control else []
    lay["EKF.process_noise"] = [[float(x) for x in row] for row in ekf.process_noise.tolist()]
    lay["EKF.calibration_vector"] = [float(x) for x in ekf.calibration_vector.flatten()]
    for key in sorted(sc.sensor_models):
        smod = ekf.sensor_models[key]
        lay[f"EKF.sensor[{key}].readings"] = names(smod.readings)
        lay[f"EKF.sensor[{key}].arglist"] = names(smod.arglist)
        q = ekf.sensor_noises[key]
        lay[f"EKF.sensor[{key}].noise"] = [[float(x) for x in row] for row in getattr(q, "data", q).tolist()]
    lay["EKF.sensor_keys_in_params"] = sorted(ekf.sensor_models)
    out["python_layout"] = lay
    if os.environ.get("C15_KEEP_TEXT"):
        out["header"], out["source"] = header, source
    print("C15DIGEST " + json.dumps(out, sort_keys=True))


if __name__ == "__main__":
    main()
