"""Concrete model definitions of a requested shape for native replays and bounded sweeps.

The expressions are generic (every partial derivative is a different non-zero polynomial), symbol
names have a sort order unrelated to their declaration order, and declaration containers are shuffled,
so slot, stride, transposition and ordering errors all show up as value differences.
"""
from __future__ import annotations

import random
from fractions import Fraction

import sympy

NAME_POOL = ["zeta", "alpha", "Beta", "x9", "x10", "mass", "b", "a_1", "Z", "k2", "velocity", "q"]


CASE_POOL = ["v", "V", "a", "A", "x_1", "X_1", "zeta", "Zeta", "b", "B", "k2", "K2"]  # names differing only in capitalisation (C15)


def names(rng, n, prefix, pool=None):
    pool = [f"{prefix}{p}" for p in (pool or NAME_POOL)]
    rng.shuffle(pool)
    return pool[:n]


class Scenario:
    def __init__(self, n, c, k, sensors, seed=0, transcendental=False, pool=None, linear=False, branchy=False, share_reading=False, rational=False, assumptions=False, nonsmooth=False, passthrough=False, magnitude=False, wrapped=False, redundant=False, tiny=False):
        self.magnitude = magnitude or wrapped
        self.wrapped = wrapped
        rng = random.Random(seed * 7919 + n * 131 + c * 17 + k * 5 + sum(sensors))
        self.rng = rng
        self.n, self.c, self.k, self.sensors = n, c, k, list(sensors)
        self.dt = sympy.Symbol("dt")
        # assumptions=True: symbols carry sympy assumptions (real / positive), as users declare them for physical quantities;
        # Symbol('x', real=True) is a DIFFERENT symbol from Symbol('x')
        kw_s = {"real": True} if assumptions else {}
        kw_u = {"positive": True} if assumptions else {}
        self.state = [sympy.Symbol(s, **kw_s) for s in names(rng, n, "s_", pool)]
        self.calibration = [sympy.Symbol(s, **kw_s) for s in names(rng, c, "c_", pool)]
        self.control = [sympy.Symbol(s, **kw_u) for s in names(rng, k, "u_", pool)]
        allsyms = self.state + self.calibration + self.control
        coef = lambda: sympy.Integer(rng.choice([2, 3, 5, 7, 11, 13])) / rng.choice([1, 2, 4])
        self.state_model = {}
        for s in self.state:
            e = coef() * s
            for v in allsyms:
                e = e + coef() * v * self.dt + (0 if linear else coef() * v * v)
            if linear:
                # Jacobians depend on dt only; some control/state terms are NOT multiplied by dt
                e = e + coef() * rng.choice(allsyms)
            elif len(allsyms) >= 2:
                a, b = rng.sample(allsyms, 2)
                e = e + coef() * a * b
                if transcendental:
                    e = e + sympy.sin(a) * b
                if nonsmooth:
                    # sign-sensitive terms (quadratic drag, magnitude readings): rewrites valid only for positive symbols change
                    # the value for negative inputs
                    e = e + coef() * sympy.sqrt(a**2) * a + sympy.sqrt(b**2) * 2 + sympy.sqrt((a - b) ** 2)  # |a|*a, 2|b|, |a-b| in a form whose derivatives sympy can print as C
                if magnitude:
                    # quadratic drag / magnitude terms written with Abs, on symbols WITHOUT assumptions (python back-end only: the
                    # C printer refuses the re()/im() sympy leaves in their complex derivative)
                    e = e + coef() * sympy.Abs(a) * a + 2 * sympy.Abs(b)
                if wrapped and n >= 2:
                    # a wrapped quantity (heading, phase) times another state: sympy leaves d Mod(v, 3)/dv UNEVALUATED, and Mod(v, 3)
                    # itself is the neighbouring Jacobian entry (so CSE abstracts it out of the Derivative).  The wrapped quantity is
                    # SHARED by the first two updates, so with CSE on it is hoisted into a temporary
                    if s is self.state[0]:
                        e = e + sympy.Mod(self.state[1], 3) * self.state[0]
                    elif s is self.state[1]:
                        # wrapped='negative' (plain-model programs): also a quantity wrapped into (-5/2, 0] - a NEGATIVE divisor (Mod takes
                        # the divisor's sign).  Kept out of the filter programs: there the shared Mod(v, 3) must stay the ONLY unevaluated derivative
                        e = e + 2 * sympy.Mod(self.state[1], 3)
                        if wrapped == "negative":
                            e = e + sympy.Mod(self.state[0], -sympy.Rational(5, 2))
                if tiny and len(allsyms) >= 2 and s is self.state[0]:
                    # physically tiny constants as BARE coefficients: a constant Jacobian entry of 3e-19, and (below) noise of 4e-22 / 6e-20
                    e = e + sympy.Float(3e-19) * (a if a is not s else b)
                if rational:
                    # powers in denominators (printer precedence: mu/r**2 is not mu/r*r), negative and fractional powers
                    e = e + coef() * a / b**2 - coef() / a**3 + coef() * b / (a**2 + 1)
                if branchy:
                    # principal-branch / sign sensitive forms: unsound "simplifications" (asin(sin(u)) -> u, sqrt(u**2) -> u,
                    # log(exp(u)) -> u for complex u ...) change the value for inputs outside the principal range
                    e = e + sympy.asin(sympy.sin(a)) + sympy.atan(sympy.tan(b)) * 2 + sympy.sqrt(a**2) * 3 + sympy.acos(sympy.cos(a + b))
            self.state_model[s] = e
        if passthrough and n >= 2:
            # statements that only forward an input: identity-updated states (bias: bias), a state set to a control / calibration / dt
            self.state_model[self.state[0]] = self.state[0]
            self.state_model[self.state[1]] = self.state[1]
            if n >= 3 and self.control:
                self.state_model[self.state[2]] = self.control[-1]
            if n >= 4 and self.calibration:
                self.state_model[self.state[3]] = self.calibration[0]
        self.sensor_models = {}
        self.sensor_noises = {}
        self.sensor_names = names(rng, len(sensors), "sensor_")
        obs = self.state + self.calibration
        for sname, m in zip(self.sensor_names, sensors):
            rnames = names(rng, m, "r_", pool)
            sm = {}
            for r in rnames:
                e = sympy.Integer(0)
                for v in obs:
                    e = e + coef() * v + (0 if linear else coef() * v * v)
                if nonsmooth and obs:
                    e = e + sympy.sqrt(obs[0] ** 2) * 3 + sympy.sqrt(obs[-1] ** 2)
                if magnitude and obs:
                    e = e + sympy.Abs(obs[0]) * 3 + sympy.Abs(obs[-1]) * obs[0]
                sm[r] = e
            # adversarial insertion orders: expressions in shuffled order, noise in REVERSE sorted reading-name order
            self.sensor_models[sname] = sm
            self.sensor_noises[sname] = {r: float(rng.choice([0.5, 1.5, 2.0, 0.25])) + 0.125 * i for i, r in enumerate(sorted(rnames, reverse=True))}
        if share_reading and len(self.sensor_names) >= 2:
            # two sensors call one of their readings the same (different models, different noise)
            a, b = self.sensor_names[0], self.sensor_names[1]
            shared = sorted(self.sensor_models[a])[0]
            if shared not in self.sensor_models[b]:
                old = sorted(self.sensor_models[b])[-1]
                self.sensor_models[b] = {(shared if r == old else r): e for r, e in self.sensor_models[b].items()}
                self.sensor_noises[b] = {(shared if r == old else r): v for r, v in self.sensor_noises[b].items()}
        if redundant:
            # redundant entries: two readings of one sensor with IDENTICAL model expressions (two altimeters), two states with identical
            # update expressions - anything keyed or sorted by the expression instead of the name ties on them
            for skey, m in self.sensor_models.items():
                rn2 = sorted(m)
                if len(rn2) >= 2:
                    m[rn2[1]] = m[rn2[0]]
                    break
            st = sorted(self.state, key=lambda q: q.name)
            if len(st) >= 3:
                self.state_model[st[2]] = self.state_model[st[1]]
        self.process_noise = {u: float(rng.choice([0.5, 1.25, 2.0])) + 0.25 * i for i, u in enumerate(self.control)}
        self.calibration_map = {cs: float(Fraction(rng.randint(-6, 6), 4)) for cs in self.calibration}
        if tiny:
            if self.control:
                self.process_noise[self.control[0]] = 4e-22
            for skey in self.sensor_noises:
                r0 = sorted(self.sensor_noises[skey])[0]
                self.sensor_noises[skey][r0] = 6e-20
                break

    def ui_model(self, ui, container="set", proactive_simplify=False):
        rng = random.Random(self.rng.random())
        # list containers are declared in REVERSE name order (the opposite of the library's internal layout)
        mk = (lambda xs: set(xs)) if container == "set" else (lambda xs: sorted(xs, key=lambda s: s.name, reverse=True))
        items = list(self.state_model.items())
        rng.shuffle(items)
        import contextlib
        import io

        with contextlib.redirect_stdout(io.StringIO()):  # (the option prints timing lines)
            return ui.Model(dt=self.dt, state=mk(self.state), control=mk(self.control), calibration=mk(self.calibration), state_model=dict(items), **({"proactive_simplify": True} if proactive_simplify else {}), **({"debug_print": True} if container == "list" else {}))  # (the list-declared twins also switch the optional printing on: it must only print)

    def point(self, seed=0):
        rng = random.Random(seed + 991)
        pt = {s: Fraction(rng.randint(-8, 8), 4) for s in self.state + self.control}
        if self.magnitude:
            # |v| is not differentiable at 0: the property only speaks about points where the model is
            pt = {s: (v if v != 0 else Fraction(-3, 4)) for s, v in pt.items()}
        pt.update({cs: Fraction(self.calibration_map[cs]) for cs in self.calibration})
        pt[self.dt] = Fraction(rng.choice([1, 2, 3, 5]), 20)
        return pt

    def describe(self):
        return {
            "n_state": self.n,
            "n_calibration": self.c,
            "n_control": self.k,
            "readings_per_sensor": self.sensors,
            "state": [s.name for s in self.state],
            "calibration": [s.name for s in self.calibration],
            "control": [s.name for s in self.control],
            "state_model": {k.name: str(v) for k, v in self.state_model.items()},
            "sensor_models": {k: {r: str(e) for r, e in v.items()} for k, v in self.sensor_models.items()},
            "sensor_noises": self.sensor_noises,
            "process_noise": {k.name: v for k, v in self.process_noise.items()},
            "calibration_map": {k.name: v for k, v in self.calibration_map.items()},
        }


def renamed(sc, style="_t", seed=0, unused_control=False, assumptions=False):
    """The same definition with every state / calibration / control symbol renamed to `<style><j>` (a permutation of 0..): `_t<j>` are the
    names the library itself uses for CSE temporaries, `x<j>` sympy's default ones."""
    import copy

    rng = random.Random(seed + 77)
    allsyms = sc.state + sc.calibration + sc.control
    order = list(range(len(allsyms)))
    rng.shuffle(order)
    off = 1 if unused_control else 0
    kw = {"real": True} if assumptions else {}  # Symbol('_t0', real=True) prints as _t0 but is NOT equal to Symbol('_t0')
    ren = {s: sympy.Symbol(f"{style}{j + off}", **kw) for s, j in zip(allsyms, order)}
    sc2 = copy.copy(sc)
    sc2.state = [ren[s] for s in sc.state]
    sc2.calibration = [ren[s] for s in sc.calibration]
    sc2.control = [ren[s] for s in sc.control]
    sc2.state_model = {ren[k]: v.xreplace(ren) for k, v in sc.state_model.items()}
    sc2.sensor_models = {k: {r: e.xreplace(ren) for r, e in v.items()} for k, v in sc.sensor_models.items()}
    sc2.process_noise = {ren[k]: v for k, v in sc.process_noise.items()}
    sc2.calibration_map = {ren[k]: v for k, v in sc.calibration_map.items()}
    sc2.renaming = {k.name: v.name for k, v in ren.items()}
    if unused_control:
        # a declared control that no expression mentions, spelled like the FIRST temporary: it is an argument of every block
        extra = sympy.Symbol(f"{style}0", **kw)
        sc2.control = sc2.control + [extra]
        sc2.process_noise = dict(sc2.process_noise)
        sc2.process_noise[extra] = 0.75
        sc2.k = sc.k + 1
    return sc2


def exact(expr, point):
    v = sympy.sympify(expr).subs({k: sympy.Rational(p.numerator, p.denominator) for k, p in point.items()})
    v = sympy.nsimplify(v, rational=True) if not v.is_Rational else v
    if v.is_Rational:
        return Fraction(int(v.p), int(v.q))
    return Fraction(float(v))


def real_jacobian(F, X):
    """ORACLE: the partial derivatives of the REAL functions F_r (a filter is only ever evaluated at real numbers).  sympy
    differentiates a Symbol without assumptions as a complex variable (d|v|/dv keeps Derivative(re(v), v)), so the symbols are
    given the assumption real=True first; the result is in terms of those real symbols - use `real_point` to evaluate it."""
    rs = {s: sympy.Symbol(s.name, real=True) for s in F.free_symbols if s.is_real is None}
    return F.xreplace(rs).jacobian([rs.get(x, x) for x in X]), rs


def jacobian_at(F, X, sub):
    """real_jacobian evaluated at the substitution `sub` (symbol -> exact number).  An entry sympy leaves unevaluated (d Mod(v, c)/dv,
    d floor(v)/dv) is replaced by an exact central difference with h = 2^-10 (exact for the piecewise-linear functions concerned
    as long as no breakpoint lies within h of the point)."""
    if not X:
        return sympy.zeros(F.shape[0], 0)
    J, rs = real_jacobian(F, X)
    back = {rs.get(k, k): v for k, v in sub.items()}
    out = sympy.zeros(*J.shape)
    h = sympy.Rational(1, 1024)
    for i in range(J.shape[0]):
        for j in range(J.shape[1]):
            if J[i, j].has(sympy.Derivative):
                x = X[j]
                hi = dict(sub)
                lo = dict(sub)
                hi[x], lo[x] = sub[x] + h, sub[x] - h
                out[i, j] = (F[i, 0].subs(hi) - F[i, 0].subs(lo)) / (2 * h)
            else:
                out[i, j] = J[i, j].subs(back)
    return out


def build_ekf(sc, config=None, container="set", proactive_simplify=False, mapping_subclasses=False):
    from replay import shim
    from replay.native import repo_import

    py = shim.install()
    ui = repo_import("formak.ui")
    cfg = {"innovation_filtering": None}
    cfg.update(config or {})
    model = sc.ui_model(ui, container, proactive_simplify=proactive_simplify)
    # the calibration map is written in REVERSE name order (a map has no order the library may rely on)
    cal = dict(sorted(sc.calibration_map.items(), key=lambda kv: kv[0].name, reverse=True))
    pn, sms, sns = dict(sc.process_noise), {k: dict(v) for k, v in sc.sensor_models.items()}, {k: dict(v) for k, v in sc.sensor_noises.items()}
    if mapping_subclasses:
        # the maps handed over as dict SUBCLASSES a caller may well use: a defaultdict (indexing a missing key inserts and returns 0.0
        # instead of raising) for the noises, an OrderedDict for the sensor models
        import collections

        pn = collections.defaultdict(float, pn)
        sns = collections.OrderedDict((k, collections.defaultdict(float, v)) for k, v in sns.items())
        sms = collections.OrderedDict(sms)
        cal = collections.OrderedDict(cal)
    before = definition_snapshot(model, pn, sms, sns, cal)
    ekf = py.compile_ekf(model, pn, sms, sns, calibration_map=cal, config=cfg)
    after = definition_snapshot(model, pn, sms, sns, cal)
    if after != before:
        changed = [k for k in before if before[k] != after[k]]
        raise DefinitionModified(f"compile_ekf rewrote the caller's definition in place ({', '.join(changed)}): whatever is generated from it next is generated from something else")
    return py, ekf


class DefinitionModified(Exception):
    pass


def definition_snapshot(model, pn, sms, sns, cal):
    """What the caller handed over, as text (expressions by srepr: an equal-valued rewrite is still a rewrite)."""
    return {
        "state_model": sorted((str(k), sympy.srepr(v)) for k, v in model.state_model.items()),
        "state/control/calibration": (sorted(map(str, model.state)), sorted(map(str, model.control)), sorted(map(str, model.calibration))),
        "process_noise": sorted((str(k), repr(v)) for k, v in pn.items()),
        "sensor_models": sorted((k, sorted((str(r), sympy.srepr(sympy.sympify(e))) for r, e in m.items())) for k, m in sms.items()),
        "sensor_noises": sorted((k, sorted((str(r), repr(v)) for r, v in m.items())) for k, m in sns.items()),
        "calibration_map": sorted((str(k), repr(v)) for k, v in cal.items()),
    }


def named_state(ekf, sc, point):
    return ekf.State(**{s.name: float(point[s]) for s in sc.state})


def named_control(ekf, sc, point):
    return ekf.Control(**{u.name: float(point[u]) for u in sc.control})
