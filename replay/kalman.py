"""Textbook EKF oracle in exact rational arithmetic (sympy Matrix over Q) + native runs of the real filter."""
from __future__ import annotations

import math
import random
from fractions import Fraction

import sympy

from replay import scenarios


def rat(x):
    f = Fraction(x)
    return sympy.Rational(f.numerator, f.denominator)


def spd(n, seed):
    rng = random.Random(seed)
    A = sympy.Matrix(n, n, lambda i, j: sympy.Rational(rng.randint(-3, 3), 2))
    return A * A.T + sympy.eye(n)


def oracle(sc, pt, P, key=None, reading=None, k_edit=None):
    """Exact prediction and (optionally) update for scenario `sc` at point `pt` with prior covariance P."""
    AS = sorted(sc.state, key=lambda s: s.name)
    AU = sorted(sc.control, key=lambda s: s.name)
    sub = {k: sympy.Rational(v.numerator, v.denominator) for k, v in pt.items()}
    F = sympy.Matrix([sc.state_model[s] for s in AS])
    G = scenarios.jacobian_at(F, AS, sub) if AS else sympy.zeros(0, 0)
    V = scenarios.jacobian_at(F, AU, sub) if AU else sympy.zeros(len(AS), 0)
    M = sympy.diag(*[rat(sc.process_noise[u]) for u in AU]) if AU else sympy.zeros(0, 0)
    out = {"state": F.subs(sub), "covariance": G * P * G.T + V * M * V.T, "G": G, "V": V, "M": M}
    if key is not None:
        sm = sc.sensor_models[key]
        rn = sorted(sm)
        x = sympy.Matrix([sub[s] for s in AS])
        h = sympy.Matrix([sm[r] for r in rn])
        H = scenarios.jacobian_at(h, AS, sub)
        hx = h.subs(sub)
        Q = sympy.diag(*[rat(sc.sensor_noises[key][r]) for r in rn])
        S = H * P * H.T + Q
        Sinv = S.inv()
        K = P * H.T * Sinv
        z = sympy.Matrix([rat(reading[r]) for r in rn])
        nu = z - hx
        nis = (nu.T * Sinv * nu)[0, 0]
        m = len(rn)
        discard = False
        thr = None
        if k_edit is not None:
            # decide nis > k*sqrt(2m)+m exactly: compare (nis - m)/k with sqrt(2m)
            kk = rat(k_edit)
            lhs = (nis - m) / kk
            discard = bool(lhs > 0 and lhs * lhs > 2 * m)
            thr = float(kk) * math.sqrt(2 * m) + m
        out.update({"H": H, "hx": hx, "Q": Q, "S": S, "K": K, "nu": nu, "nis": nis, "threshold": thr, "discard": discard, "x_post": x + K * nu, "P_post": P - K * H * P, "readings": rn})
    return out


def close(a, b, tol=1e-9):
    a, b = float(a), float(b)
    return abs(a - b) <= tol * max(1.0, abs(a), abs(b))


def mat_diff(name, got, want, tol=1e-8):
    import numpy as np

    want_np = np.array(want.tolist(), dtype=float).reshape(want.shape)
    if got.shape != want_np.shape:
        return f"{name}: shape {got.shape}, expected {want_np.shape}"
    # tolerance RELATIVE TO THE MAGNITUDE OF THE MATRIX (an absolute floor would make the comparison vacuous for the small-scale
    # variants: entries of 1e-9 all "agree" within 1e-8)
    mag = max(float(np.max(np.abs(want_np), initial=0.0)), float(np.max(np.abs(got), initial=0.0)))
    for i in range(want_np.shape[0]):
        for j in range(want_np.shape[1]):
            g, w = float(got[i, j]), float(want_np[i, j])
            if not (abs(g - w) <= tol * mag) and not (g == w):
                return f"{name}[{i},{j}] = {g!r}, expected {w!r} (matrix magnitude {mag:.3g})"
    return None


def native_predict(shape, seed, control_none=False, container="set", branchy=False):
    """Real process_model vs oracle.  shape = (n, c, k).  Returns list of problems + scenario.
    branchy: update expressions with principal-branch folding (asin(sin(a)), atan(tan(b)), sqrt(a**2), acos(cos(a+b))) evaluated at
    points outside the principal range."""
    import numpy as np

    n, c, k = shape
    sc = scenarios.Scenario(n, c, k, [1], seed=seed, branchy=branchy)
    try:
        py, ekf = scenarios.build_ekf(sc, container=container)
    except Exception as e:
        return [f"constructing the filter for a valid definition raised {type(e).__name__}: {(str(e).splitlines() or [''])[0]}"], sc
    pt = sc.point(seed)
    if branchy:
        # the folded forms have kinks where an argument or a sum of two arguments vanishes: the prediction's Jacobian is only defined
        # (and the property only speaks) away from them
        vs = lambda q: [q[x] for x in sc.state + sc.control + sc.calibration]
        for ps in range(seed, seed + 40):
            pt = sc.point(ps)
            if all(a != 0 for a in vs(pt)) and all(a + b != 0 for i, a in enumerate(vs(pt)) for b in vs(pt)[i + 1 :]):
                break
    if control_none:
        for u in sc.control:
            pt[u] = Fraction(0)
    P = spd(n, seed)
    Pnp = np.array(P.tolist(), dtype=float).reshape((n, n))
    state = scenarios.named_state(ekf, sc, pt)
    cov = ekf.Covariance.from_data(Pnp.copy())
    ctl = None if control_none else scenarios.named_control(ekf, sc, pt)
    snap = (state.data.copy(), cov.data.copy(), None if ctl is None else ctl.data.copy(), ekf.process_noise.copy())
    problems = []
    try:
        r1 = ekf.process_model(float(pt[sc.dt]), state, cov, ctl) if ctl is not None else ekf.process_model(float(pt[sc.dt]), state, cov)
        r2 = ekf.process_model(float(pt[sc.dt]), state, cov, ctl) if ctl is not None else ekf.process_model(float(pt[sc.dt]), state, cov)
    except Exception as e:
        return [f"process_model raised {type(e).__name__}: {(str(e).splitlines() or [''])[0]}"], sc
    o = oracle(sc, pt, P)
    d = mat_diff("predicted state", r1.state.data, o["state"])
    if d:
        problems.append(d)
    d = mat_diff("predicted covariance (G P G^T + V M V^T)", r1.covariance.data, o["covariance"])
    if d:
        problems.append(d)
    if not (np.array_equal(r1.state.data, r2.state.data) and np.array_equal(r1.covariance.data, r2.covariance.data)):
        problems.append("repeating process_model with the same arguments gives a different result")
    if not (np.array_equal(state.data, snap[0]) and np.array_equal(cov.data, snap[1]) and (ctl is None or np.array_equal(ctl.data, snap[2])) and np.array_equal(ekf.process_noise, snap[3])):
        problems.append("process_model modified its inputs or the filter's process noise")
    return problems, sc


def native_update(shape, seed, k_edit=None, nis_target=None, reading_equals_prediction=False, container="set"):
    """Real sensor_model vs oracle.  shape = (n, c, m)."""
    import numpy as np

    n, c, m = shape
    sc = scenarios.Scenario(n, c, 1, [m], seed=seed)
    cfg = {"innovation_filtering": k_edit}
    try:
        py, ekf = scenarios.build_ekf(sc, config=cfg, container=container)
    except Exception as e:
        return [f"constructing the filter for a valid definition raised {type(e).__name__}: {(str(e).splitlines() or [''])[0]}"], sc, None
    pt = sc.point(seed)
    key = sc.sensor_names[0]
    P = spd(n, seed + 1)
    Pnp = np.array(P.tolist(), dtype=float).reshape((n, n))
    rn = sorted(sc.sensor_models[key])
    rng = random.Random(seed + 5)
    o0 = oracle(sc, pt, P, key, {r: 0 for r in rn}, k_edit)
    hx = [Fraction(int(v.p), int(v.q)) for v in o0["hx"]]
    if reading_equals_prediction:
        reading = {r: hx[i] for i, r in enumerate(rn)}
    else:
        reading = {r: hx[i] + Fraction(rng.randint(-12, 12), 8) for i, r in enumerate(rn)}
    if nis_target is not None:
        # scale the innovation so that NIS lands (in exact arithmetic) just below / above the threshold
        o1 = oracle(sc, pt, P, key, reading, k_edit)
        if o1["nis"] != 0:
            scale2 = rat(Fraction(nis_target)) / o1["nis"]
            sroot = Fraction(math.sqrt(float(scale2))).limit_denominator(10**9)
            reading = {r: hx[i] + (reading[r] - hx[i]) * sroot for i, r in enumerate(rn)}
    o = oracle(sc, pt, P, key, reading, k_edit)
    state = scenarios.named_state(ekf, sc, pt)
    cov = ekf.Covariance.from_data(Pnp.copy())
    z = ekf.make_reading(key, **{r: float(v) for r, v in reading.items()})
    snap = (state.data.copy(), cov.data.copy(), z.data.copy())
    problems = []
    try:
        res = ekf.sensor_model(state, cov, sensor_key=key, sensor_reading=z)
    except Exception as e:
        return [f"sensor_model raised {type(e).__name__}: {(str(e).splitlines() or [''])[0]}"], sc, o
    inn = ekf.innovations.get(key)
    spu = ekf.sensor_prediction_uncertainty.get(key)
    if inn is None or mat_diff("recorded innovation", inn, o["nu"]):
        problems.append(mat_diff("recorded innovation", inn, o["nu"]) if inn is not None else "innovation not recorded")
    if spu is None or mat_diff("recorded innovation covariance S = H P H^T + Q", spu, o["S"]):
        problems.append(mat_diff("recorded innovation covariance S = H P H^T + Q", spu, o["S"]) if spu is not None else "innovation covariance not recorded")
    near = o["threshold"] is not None and abs(float(o["nis"]) - o["threshold"]) < 1e-9 * max(1.0, o["threshold"])
    if o["discard"] and not near:
        if not (res[0] is state and res[1] is cov):
            problems.append(f"reading with NIS {float(o['nis'])} > threshold {o['threshold']} was not discarded (or the discard did not return the same estimate)")
    elif not near:
        if res[0] is state and res[1] is cov:
            problems.append(f"reading with NIS {float(o['nis'])} <= threshold {o['threshold']} (filtering {'on' if k_edit else 'off'}) was discarded")
        else:
            d = mat_diff("posterior state x + K (z - h(x))", res[0].data, o["x_post"])
            if d:
                problems.append(d)
            d = mat_diff("posterior covariance P - K H P", res[1].data, o["P_post"])
            if d:
                problems.append(d)
            if not np.allclose(res[1].data, res[1].data.T, atol=1e-9):
                problems.append("posterior covariance not symmetric")
            if reading_equals_prediction and mat_diff("state after a reading equal to the prediction", res[0].data, sympy.Matrix([rat(pt[s]) for s in sorted(sc.state, key=lambda s: s.name)])):
                problems.append("a reading equal to the prediction changed the state")
    if not (np.array_equal(state.data, snap[0]) and np.array_equal(cov.data, snap[1]) and np.array_equal(z.data, snap[2])):
        problems.append("sensor_model modified its inputs")
    return [p for p in problems if p], sc, o


def native_remove_innovation_battery(seed=0):
    """Direct native calls of the real remove_innovation, including an EXACT boundary case
    (m=2, k=1.5: threshold 1.5*sqrt(4)+2 = 5.0 exactly; nu=(1,2), S_inv=I: NIS = 5.0 exactly -> must NOT discard)."""
    import numpy as np

    sc = scenarios.Scenario(2, 0, 1, [2], seed=seed)
    problems = []
    cases = []
    I2 = np.eye(2)
    cases.append((1.5, np.array([[1.0], [2.0]]), I2, False, "NIS exactly on the boundary (5.0 == 5.0)"))
    cases.append((1.5, np.array([[1.0], [2.5]]), I2, True, "NIS 7.25 > 5.0"))
    cases.append((1.5, np.array([[1.0], [1.5]]), I2, False, "NIS 3.25 < 5.0"))
    cases.append((0.5, np.array([[1.0], [1.5]]), I2, True, "NIS 3.25 > 0.5*2+2 = 3.0"))
    cases.append((1.5, np.array([[2.0], [0.0]]), np.array([[2.0, 0.5], [0.5, 1.0]]), True, "NIS 8.0 > 5.0 (non-identity S_inv)"))
    cases.append((1.5, np.array([[1.0], [1.0]]), np.array([[2.0, 0.5], [0.5, 1.0]]), False, "NIS 4.0 < 5.0 (off-diagonal terms count)"))
    cases.append((None, np.array([[10.0], [10.0]]), I2, False, "filtering disabled"))
    # a threshold is a number: a whole one may arrive as an int or a numpy integer (Optional[float] admits both)
    cases.append((2, np.array([[1.0], [2.5]]), I2, True, "integer threshold 2: NIS 7.25 > 2*2+2 = 6.0"))
    cases.append((np.int64(2), np.array([[1.0], [2.5]]), I2, True, "numpy integer threshold 2: NIS 7.25 > 6.0"))
    cases.append((np.float32(1.5), np.array([[1.0], [2.5]]), I2, True, "float32 threshold 1.5: NIS 7.25 > 5.0"))
    cases.append((2, np.array([[1.0], [2.0]]), I2, False, "integer threshold 2: NIS 5.0 < 6.0"))
    for k_edit, nu, sinv, want, label in cases:
        try:
            py, ekf = scenarios.build_ekf(sc, config={"innovation_filtering": k_edit})
            got = ekf.remove_innovation(nu, sinv)
            gotb = bool(got)
        except Exception as e:
            problems.append(f"remove_innovation({label}) raised {type(e).__name__}: {e}")
            continue
        if gotb != want:
            problems.append(f"remove_innovation: {label}: returned {gotb}, expected {want}")
    # m = 1 and m = 3 thresholds
    sc1 = scenarios.Scenario(2, 0, 1, [1], seed=seed)
    py, ekf1 = scenarios.build_ekf(sc1, config={"innovation_filtering": 2.0})
    thr1 = 2.0 * math.sqrt(2.0) + 1
    for v, want in ((math.sqrt(thr1) * 0.999, False), (math.sqrt(thr1) * 1.001, True)):
        try:
            if bool(ekf1.remove_innovation(np.array([[v]]), np.eye(1))) != want:
                problems.append(f"remove_innovation m=1, k=2: NIS {v*v} vs threshold {thr1}: expected {want}")
        except Exception as e:
            problems.append(f"remove_innovation m=1 raised {type(e).__name__}: {e}")
    problems += ulp_boundary_grid(sc, seed)
    return problems, sc


def ulp_boundary_grid(sc, seed=0):
    """IEEE boundary: for a grid of (k, m) the bound b = fl(k*sqrt(2m) + m) is computed as the property writes it; with nu = e_1 and
    S_inv = diag(x, 1, ..., 1) the NIS is exactly x.  NIS = b must be kept (strict >), NIS = nextafter(b, +inf) discarded,
    NIS = nextafter(b, -inf) kept - whatever the rounding of b's own computation."""
    import numpy as np

    problems = []
    one = scenarios.Scenario(2, 0, 1, [1], seed=seed)
    for k_edit in (0.25, 0.5, 1.0, 1.5, 2.0, 3.0, 5.0, 0.1, 7.3, 2, np.int64(3), np.float64(0.75)):
        try:
            py, ekf = scenarios.build_ekf(one, config={"innovation_filtering": k_edit})
        except Exception as e:
            return [f"constructing the filter raised {type(e).__name__}: {e}"]
        for m in (1, 2, 3, 4, 5, 6, 8):
            b = k_edit * math.sqrt(2 * m) + m
            nu = np.zeros((m, 1))
            nu[0, 0] = 1.0
            for x, want, label in ((b, False, "NIS exactly the bound"), (math.nextafter(b, math.inf), True, "NIS one ulp above the bound"), (math.nextafter(b, -math.inf), False, "NIS one ulp below the bound")):
                sinv = np.eye(m)
                sinv[0, 0] = x
                try:
                    got = bool(ekf.remove_innovation(nu, sinv))
                except Exception as e:
                    problems.append(f"remove_innovation (k={k_edit}, m={m}) raised {type(e).__name__}: {e}")
                    break
                if got != want:
                    problems.append(f"remove_innovation k={k_edit}, m={m}, {label} ({x!r} vs {b!r}): returned {got}, the property's decision is {want}")
            if len(problems) > 3:
                return problems
    return problems


def native_sequence(seed=0, linear=False, k_edit=3.0, container="set", assumptions=False, scale=None, cse=None, magnitude=False, redundant=False):
    """STATEFUL bounded check: one filter instance with two sensors of DIFFERENT reading dimension, driven through a sequence of
    Jacobian evaluations at different points (different dt), predictions (dt of the point, 0, another dt) and alternating
    sensor updates (near and far readings).  Every result is compared with the exact oracle at ITS OWN inputs, so state kept
    between calls (caches, remembered thresholds, reused buffers) shows up.  Returns (problems, scenario)."""
    import numpy as np

    sc = scenarios.Scenario(3, 2, 2, [1, 2], seed=seed, linear=linear, assumptions=assumptions, magnitude=magnitude, redundant=redundant)  # two calibration values (given to the library in reverse name order)
    if scale:
        # very precise sensors on a very small prior (values far below 1e-6): supplied noise must be used as supplied
        sc.sensor_noises = {kx: {r: v * scale for r, v in m.items()} for kx, m in sc.sensor_noises.items()}
        sc.process_noise = {u: v * scale for u, v in sc.process_noise.items()}  # (and very quiet actuators: process noise far below 1e-6)
    try:
        cfg = {"innovation_filtering": k_edit}
        if cse is not None:
            cfg["common_subexpression_elimination"] = cse
        py, ekf = scenarios.build_ekf(sc, config=cfg, container=container)
    except Exception as e:
        return [f"constructing the filter for a valid definition raised {type(e).__name__}: {(str(e).splitlines() or [''])[0]}"], sc
    n = sc.n
    AS = sorted(sc.state, key=lambda s: s.name)
    AU = sorted(sc.control, key=lambda s: s.name)
    problems = []
    pts = [sc.point(seed), sc.point(seed + 1), sc.point(seed)]
    pts[1][sc.dt] = pts[0][sc.dt] * 3  # a different step length at the second point
    P = spd(n, seed + 2)
    if scale:
        P = P * rat(Fraction(scale).limit_denominator(10**12))
    Pnp = np.array(P.tolist(), dtype=float).reshape((n, n))
    try:
        for step, pt in enumerate(pts):
            state, ctl = scenarios.named_state(ekf, sc, pt), scenarios.named_control(ekf, sc, pt)
            o = oracle(sc, pt, P)
            d = mat_diff(f"call {step}: process_jacobian", ekf.process_jacobian(float(pt[sc.dt]), state, ctl), o["G"])
            d = d or mat_diff(f"call {step}: control_jacobian", ekf.control_jacobian(float(pt[sc.dt]), state, ctl), o["V"])
            if d:
                problems.append(d)
        base = sc.point(seed)
        for step, dtv in enumerate([base[sc.dt], Fraction(0), base[sc.dt] / 2, Fraction(1, 2**40), -base[sc.dt], -base[sc.dt] / 4]):  # (negative: the managed filter steps backwards to late readings)
            pt = dict(base)
            pt[sc.dt] = dtv
            state, ctl = scenarios.named_state(ekf, sc, pt), scenarios.named_control(ekf, sc, pt)
            cov = ekf.Covariance.from_data(Pnp.copy())
            r = ekf.process_model(float(dtv), state, cov, ctl)
            o = oracle(sc, pt, P)
            d = mat_diff(f"prediction {step} (dt={float(dtv)}): state", r.state.data, o["state"]) or mat_diff(f"prediction {step} (dt={float(dtv)}): covariance", r.covariance.data, o["covariance"])
            if d:
                problems.append(d)
        # CHAINED predictions: each output (state AND covariance) is fed back in; earlier outputs and inputs must stay what they were
        pt = dict(base)
        state, ctl = scenarios.named_state(ekf, sc, pt), scenarios.named_control(ekf, sc, pt)
        cov = ekf.Covariance.from_data(Pnp.copy())
        Pk = P
        kept = []
        for step in range(3):
            cov_in, state_in = cov.data.copy(), state.data.copy()
            r = ekf.process_model(float(pt[sc.dt]), state, cov, ctl)
            o = oracle(sc, pt, Pk)
            d = mat_diff(f"prediction chain step {step}: covariance", r.covariance.data, o["covariance"], tol=1e-7) or mat_diff(f"prediction chain step {step}: state", r.state.data, o["state"], tol=1e-7)
            if d:
                problems.append(d)
            if not np.array_equal(cov.data, cov_in):
                problems.append(f"prediction chain step {step}: the call modified the covariance it was given")
            if not np.array_equal(state.data, state_in):
                problems.append(f"prediction chain step {step}: the call modified the state it was given")
            for j, (what, obj, snap) in enumerate(kept):
                if not np.array_equal(obj.data, snap):
                    problems.append(f"prediction chain step {step}: the {what} returned by step {j // 2} changed afterwards")
            kept.append(("covariance", r.covariance, r.covariance.data.copy()))
            kept.append(("state", r.state, r.state.data.copy()))
            cov, Pk, state = r.covariance, o["covariance"], r.state
            pt = dict(pt)
            for idx, sym in enumerate(AS):
                v = sympy.nsimplify(o["state"][idx, 0], rational=True)
                pt[sym] = Fraction(int(v.p), int(v.q))
            if problems:
                break
        rng = random.Random(seed + 9)
        keys = sorted(sc.sensor_models, key=lambda kx: len(sc.sensor_models[kx]))  # m=1 first, then m=2, alternating
        pt = base
        state = scenarios.named_state(ekf, sc, pt)
        cov = ekf.Covariance.from_data(Pnp.copy())
        for step, (key, far) in enumerate([(keys[0], False), (keys[1], False), (keys[0], True), (keys[1], True), (keys[1], False), (keys[0], False)]):
            rn = sorted(sc.sensor_models[key])
            o0 = oracle(sc, pt, P, key, {r: 0 for r in rn}, k_edit)
            hx = [Fraction(int(v.p), int(v.q)) for v in o0["hx"]]
            reading = {r: hx[i] + Fraction(rng.randint(1, 12), 8) for i, r in enumerate(rn)}
            # scale the innovation to a chosen NIS: far = 400 (beyond any sensible bound, also the library's default one);
            # near = 0.8 x this sensor's own bound (between the m=1 and m=2 bounds), or 1.0 with filtering disabled
            o1 = oracle(sc, pt, P, key, reading, k_edit)
            target = 400.0 if far else (o1["threshold"] * 0.8 if k_edit else 1.0)
            if o1["nis"] != 0:
                sroot = Fraction(math.sqrt(float(rat(Fraction(target).limit_denominator(10**6)) / o1["nis"]))).limit_denominator(10**9)
                reading = {r: hx[i] + (reading[r] - hx[i]) * sroot for i, r in enumerate(rn)}
            o = oracle(sc, pt, P, key, reading, k_edit)
            z = ekf.make_reading(key, **{r: float(v) for r, v in reading.items()})
            res = ekf.sensor_model(state, cov, sensor_key=key, sensor_reading=z)
            same = res[0] is state and res[1] is cov
            near_boundary = o["threshold"] is not None and abs(float(o["nis"]) - o["threshold"]) < 1e-6 * max(1.0, o["threshold"])
            if near_boundary:
                continue
            if same != bool(o["discard"]):
                problems.append(f"update {step} (sensor with {len(rn)} reading(s), NIS {float(o['nis']):.6g}, bound {o['threshold'] if o['threshold'] is None else round(o['threshold'], 6)}, filtering {'on' if k_edit else 'disabled'}): {'discarded' if same else 'accepted'}, the property's decision is {'discard' if o['discard'] else 'accept'}")
                continue
            if not same:
                d = mat_diff(f"update {step}: posterior state", res[0].data, o["x_post"]) or mat_diff(f"update {step}: posterior covariance", res[1].data, o["P_post"])
                if d:
                    problems.append(d)
            d = mat_diff(f"update {step}: recorded innovation", ekf.innovations[key], o["nu"])
            if d:
                problems.append(d)
    except Exception as e:
        problems.append(f"sequence raised {type(e).__name__}: {(str(e).splitlines() or [''])[0]}")
    return problems, sc


def native_dtypes(seed=0):
    """Inputs of other dtypes than float64 (a State / Covariance / reading built with from_data from an integer or float32 array is a
    finite input like any other): prediction and update of the real filter against the exact oracle at the same values; the results
    must not be truncated or rounded to the input's dtype.  Returns (problems, scenario)."""
    import numpy as np

    sc = scenarios.Scenario(3, 1, 2, [2], seed=seed)
    try:
        py, ekf = scenarios.build_ekf(sc, config={"innovation_filtering": None}, mapping_subclasses=True)  # (noises in defaultdicts, models in OrderedDicts)
    except Exception as e:
        return [f"constructing the filter for a valid definition raised {type(e).__name__}: {(str(e).splitlines() or [''])[0]}"], sc
    rng = random.Random(seed + 41)
    AS = sorted(sc.state, key=lambda s: s.name)
    AU = sorted(sc.control, key=lambda s: s.name)
    n = sc.n
    pt = sc.point(seed)
    for s in AS + AU:
        pt[s] = Fraction(rng.choice([-3, -2, -1, 1, 2, 3]))  # integer-valued point
    A = sympy.Matrix(n, n, lambda i, j: rng.randint(-2, 2))
    P = A * A.T + sympy.eye(n) * 2  # integer SPD prior
    key = sc.sensor_names[0]
    rn = sorted(sc.sensor_models[key])
    reading = {r: Fraction(rng.randint(-4, 4)) for r in rn}
    sn_py = [str(a) for a in ekf.State._arglist]
    idx = {a: i for i, a in enumerate(sn_py)}
    order = [idx[s.name] for s in AS]
    problems = []
    for dtype in (np.int64, np.float32, np.int32):
        tag = np.dtype(dtype).name
        try:
            x = np.zeros((n, 1), dtype=dtype)
            for s in AS:
                x[idx[s.name], 0] = int(pt[s])
            Pm = np.zeros((n, n), dtype=dtype)
            for i, a in enumerate(AS):
                for j, b in enumerate(AS):
                    Pm[idx[a.name], idx[b.name]] = int(P[i, j])
            state = ekf.State.from_data(x)
            cov = ekf.Covariance.from_data(Pm)
            ctl = ekf.Control.from_data(np.array([[int(pt[u])] for u in sorted(sc.control, key=lambda s: str(s))], dtype=dtype)) if False else scenarios.named_control(ekf, sc, pt)
            o = oracle(sc, pt, P, key, reading, None)
            r = ekf.process_model(float(pt[sc.dt]), state, cov, ctl)
            d = mat_diff(f"{tag} inputs: predicted state", r.state.data[order, :], o["state"]) or mat_diff(f"{tag} inputs: predicted covariance", r.covariance.data[np.ix_(order, order)], o["covariance"])
            if d:
                problems.append(d)
            # the three Jacobians AT a state of this dtype: partial derivatives are not whole numbers because the state's entries are
            cidx = [[str(a) for a in ekf.Control._arglist].index(u.name) for u in AU] if AU else []
            Jp = ekf.process_jacobian(float(pt[sc.dt]), state, ctl)
            d = mat_diff(f"{tag} inputs: process jacobian", np.asarray(Jp)[np.ix_(order, order)], o["G"])
            if not d and AU:
                Jc = ekf.control_jacobian(float(pt[sc.dt]), state, ctl)
                d = mat_diff(f"{tag} inputs: control jacobian", np.asarray(Jc)[np.ix_(order, cidx)], o["V"])
            if not d:
                Js = ekf.sensor_jacobian(key, state)
                d = mat_diff(f"{tag} inputs: sensor jacobian", np.asarray(Js)[:, order], o["H"])
            if d:
                problems.append(d)
            z = ekf.make_reading(key, data=np.array([[int(reading[rr])] for rr in [str(a) for a in type(ekf.make_reading(key))._arglist]], dtype=dtype))
            u = ekf.sensor_model(state, cov, sensor_key=key, sensor_reading=z)
            d = mat_diff(f"{tag} inputs: posterior state", u[0].data[order, :], o["x_post"]) or mat_diff(f"{tag} inputs: posterior covariance", u[1].data[np.ix_(order, order)], o["P_post"])
            if d:
                problems.append(d)
        except Exception as e:
            problems.append(f"{tag} inputs: {type(e).__name__}: {(str(e).splitlines() or [''])[0][:160]}")
    return problems, sc


def native_disparate_scales(seed=0, k_edit=3.0):
    """A two-reading sensor whose components live at very different scales (a range in metres next to a phase in micro-radians):
    S = diag(2e12, 2e-6) is positive definite with condition number 1e18.  The decision is still NIS > k*sqrt(2m)+m with the FULL
    inverse of S: an outlier in the small-scale component (NIS 5e5) is discarded and leaves the estimate untouched, a reading one
    standard deviation off in both components (NIS 1) is accepted and changes it.  Returns a list of problems."""
    import numpy as np
    import sympy

    from replay import shim
    from replay.native import repo_import

    py = shim.install()
    ui = repo_import("formak.ui")
    dt, a, b = sympy.symbols("dt a b")
    model = ui.Model(dt=dt, state={a, b}, control=set(), state_model={a: a, b: b})
    problems = []
    try:
        ekf = py.compile_ekf(model, {}, {"pair": {"r_far": a, "r_fine": b}}, {"pair": {"r_far": 1e12, "r_fine": 1e-6}}, config={"innovation_filtering": k_edit})
        P = np.diag([1e12, 1e-6])
        bound = k_edit * math.sqrt(4) + 2
        for label, z, nis, discard in (("outlier in the fine component", (0.0, 1.0), 0.0 / 2e12 + 1.0 / 2e-6, True), ("one sigma off in both components", (math.sqrt(2e12) * math.sqrt(0.5), math.sqrt(2e-6) * math.sqrt(0.5)), 1.0, False), ("outlier in the far component", (1e7, 0.0), 1e14 / 2e12, True)):
            st, cov = ekf.State(a=0.0, b=0.0), ekf.Covariance.from_data(P.copy())
            r = ekf.sensor_model(st, cov, sensor_key="pair", sensor_reading=ekf.make_reading("pair", r_far=z[0], r_fine=z[1]))
            same = np.array_equal(r.state.data, st.data) and np.array_equal(r.covariance.data, P)
            if same != discard:
                problems.append(f"S = diag(2e12, 2e-6), {label} (NIS {nis:.6g}, bound {bound}): reading {'discarded' if same else 'accepted'}, the property's decision is {'discard' if discard else 'accept'}")
    except Exception as e:
        problems.append(f"sensor with components at scales 1e12 and 1e-6 raised {type(e).__name__}: {(str(e).splitlines() or [''])[0][:160]}")
    return problems
