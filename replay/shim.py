"""numpy-1.x scalar-conversion shim (assumption A-NP1) for NATIVE replays.

The repository pins numpy==1.23.1; the sandbox has numpy 2.x where a size-1 ndarray no longer converts
implicitly to a Python scalar (`array[i, 0] = np.array([x])`, `float(np.array([[x]]))`, passing a
length-1 row to a lambdified function).  Without this shim no compiled formak model can run at all here.
The shim does not touch /repo: it rebinds two module globals of formak.python at import time.
"""
import builtins

import numpy as np


def _scalar(x):
    if isinstance(x, np.ndarray) and x.size == 1:
        return float(x.reshape(-1)[0])
    return x


class _FloatMeta(type):
    def __instancecheck__(cls, obj):
        return isinstance(obj, builtins.float)

    def __call__(cls, x=0.0):
        return builtins.float(_scalar(x))


class _Float(metaclass=_FloatMeta):
    pass


_installed = False


def install(python_module=None):
    """Idempotent.  Wraps formak.python.BasicBlock.execute and binds formak.python.float."""
    global _installed
    from replay.native import repo_import

    py = python_module or repo_import("formak.python")
    if getattr(py, "_pvc_shim", False):
        return py
    orig_execute = py.BasicBlock.execute

    def execute(self, *args, **kwargs):
        # numpy scalars, not builtin floats: under numpy 1.x the lambdified code divides size-1 ARRAYS (0/0 is nan with a warning,
        # never ZeroDivisionError), and np.float64 keeps exactly that arithmetic
        args = [np.float64(_scalar(a)) if isinstance(a, np.ndarray) and a.size == 1 else a for a in args]
        for v in orig_execute(self, *args, **kwargs):
            yield v

    py.BasicBlock.execute = execute
    py.float = _Float
    common = repo_import("formak.common")
    common.float = _Float
    py._pvc_shim = True
    return py
