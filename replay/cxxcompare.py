"""Native comparison of the Python filter with the compiled generated C++ filter (C07, bounded part).

One scenario, one configuration: the real python.compile_ekf filter runs in process; the real C++ generator's output is
compiled (g++, vendored Eigen stand-in) with a driver that feeds the SAME inputs BY NAME (Options constructors, named
accessors; matrix rows are located through the generated named constructor, never assumed) and prints its results by
name.  Compared: predicted state / covariance, and per sensor and reading: posterior state / covariance, stored
innovation, accept/reject decision.  Tolerance 1e-9 relative (floating-point rounding, D-float).
"""
from __future__ import annotations

import math
import random
import subprocess
from fractions import Fraction

from replay import cppgen, kalman, scenarios

TOL = 1e-9


def lit(x):
    return repr(float(x))


def compare(sc, k_edit=3.0, cse=True, seed=0, container="set"):
    """Returns (problems, details)."""
    import numpy as np

    try:
        py, ekf = scenarios.build_ekf(sc, config={"innovation_filtering": k_edit, "common_subexpression_elimination": cse}, container=container)
    except Exception as e:
        return [f"python filter construction raised {type(e).__name__}: {(str(e).splitlines() or [''])[0]}"], {}
    try:
        header, source, _ = cppgen.generate(sc, cse=cse, innovation_filtering=k_edit, container=container)
    except Exception as e:
        return [f"C++ generation raised {type(e).__name__}: {(str(e).splitlines() or [''])[0]}"], {}
    pt = sc.point(seed)
    n = sc.n
    AS = sorted(sc.state, key=lambda s: s.name)
    Pm = kalman.spd(n, seed + 1)
    Pname = {(a.name, b.name): Fraction(int(Pm[i, j].p), int(Pm[i, j].q)) for i, a in enumerate(AS) for j, b in enumerate(AS)}
    sn_py = [str(a) for a in ekf.State._arglist]
    Pnp = np.array([[float(Pname[(a, b)]) for b in sn_py] for a in sn_py], dtype=float).reshape((n, n))
    state = scenarios.named_state(ekf, sc, pt)
    cov = ekf.Covariance.from_data(Pnp.copy())
    ctl = scenarios.named_control(ekf, sc, pt) if sc.control else None
    dt = float(pt[sc.dt])
    py_out = {}
    try:
        r = ekf.process_model(dt, state, cov, ctl) if ctl is not None else ekf.process_model(dt, state, cov)
    except Exception as e:
        return [f"python process_model raised {type(e).__name__}: {e}"], {}
    for i, a in enumerate(sn_py):
        py_out[("pstate", a)] = float(r.state.data[i, 0])
        for j, b in enumerate(sn_py):
            py_out[("pcov", a, b)] = float(r.covariance.data[i, j])
    # readings: prediction + small / large offsets (both decisions occur with filtering on)
    rng = random.Random(seed + 5)
    cases = []
    for key in sorted(sc.sensor_models):
        rn = sorted(sc.sensor_models[key])
        sub = {k: v for k, v in pt.items()}
        hx = {rname: scenarios.exact(sc.sensor_models[key][rname], sub) for rname in rn}
        for label, scale in (("near", Fraction(1, 16)), ("far", Fraction(40))):
            reading = {rname: hx[rname] + scale * Fraction(rng.randint(1, 12), 8) * rng.choice([-1, 1]) for rname in rn}
            cases.append((key, label, reading))
    for key in sorted(sc.sensor_models):
        py_out[("pre", key)] = 1.0 if key in ekf.innovations else 0.0
    for key, label, reading in cases:
        z = ekf.make_reading(key, **{k: float(v) for k, v in reading.items()})
        rn_py = [str(a) for a in type(z)._arglist]
        z_before = z.data.copy()
        try:
            res = ekf.sensor_model(state, cov, sensor_key=key, sensor_reading=z)
        except Exception as e:
            return [f"python sensor_model raised {type(e).__name__}: {e}"], {}
        if not np.array_equal(z.data, z_before):
            # the generated C++ takes the reading by const reference: a caller that reuses the reading object sees different values
            return [f"python sensor_model modified the reading it was given (sensor {key}: {z_before.ravel().tolist()} became {z.data.ravel().tolist()}); the generated C++ update cannot (const reference)"], {}
        tag = f"{key}.{label}"
        py_out[("same", tag)] = 1.0 if (res[0] is state and res[1] is cov) else 0.0
        for i, a in enumerate(sn_py):
            py_out[("ustate", tag, a)] = float(res[0].data[i, 0])
            for j, b in enumerate(sn_py):
                py_out[("ucov", tag, a, b)] = float(res[1].data[i, j])
        inn = ekf.innovations[key]
        for i, a in enumerate(rn_py):
            py_out[("innov", tag, a)] = float(inn[i, 0])
        # NIS distance from the boundary (to skip decisions that rounding may flip)
        spu = ekf.sensor_prediction_uncertainty[key]
        nis = float((inn.T @ np.linalg.inv(spu) @ inn)[0, 0])
        thr = None if not k_edit else k_edit * math.sqrt(2 * len(rn_py)) + len(rn_py)
        py_out[("margin", tag)] = abs(nis - thr) / max(1.0, thr) if thr is not None else 1.0

    # ---- C++ driver --------------------------------------------------------------------------------
    L = ["#include <formak/model.h>", "#include <cstdio>", "using namespace generated;",
         "template <typename M> int find1(const M& m, int rows) { for (int i = 0; i < rows; ++i) if (m(i, 0) == 1.0) return i; return -1; }",
         "template <typename M> bool eqm(const M& a, const M& b, int r, int c) { for (int i = 0; i < r; ++i) for (int j = 0; j < c; ++j) if (!(a(i, j) == b(i, j))) return false; return true; }",
         "int main() {"]
    L.append("  StateAndVariance sv; sv.state = State(StateOptions{" + ", ".join(f".{s.name} = {lit(pt[s])}" for s in AS) + "});")
    for s in AS:
        L.append(f"  int ix_{s.name} = find1(State(StateOptions{{.{s.name} = 1.0}}).data, {n});")
    for a in AS:
        for b in AS:
            L.append(f"  sv.covariance.data(ix_{a.name}, ix_{b.name}) = {lit(Pname[(a.name, b.name)])};")
    pm_args, sm_args = ["%r" % dt, "sv"], ["sv"]
    if sc.calibration:
        L.append("  Calibration cal(CalibrationOptions{" + ", ".join(f".{c.name} = {lit(sc.calibration_map[c])}" for c in sorted(sc.calibration, key=lambda s: s.name)) + "});")
        pm_args.append("cal")
        sm_args.append("cal")
    if sc.control:
        L.append("  Control ctl(ControlOptions{" + ", ".join(f".{u.name} = {lit(pt[u])}" for u in sorted(sc.control, key=lambda s: s.name)) + "});")
        pm_args.append("ctl")
    L.append("  ExtendedKalmanFilter ekf;")
    L.append(f"  StateAndVariance p = ekf.process_model({', '.join(pm_args)});")
    for a in AS:
        L.append(f'  printf("pstate {a.name} %.17g\\n", p.state.{a.name}());')
        for b in AS:
            L.append(f'  printf("pcov {a.name} {b.name} %.17g\\n", p.covariance.data(ix_{a.name}, ix_{b.name}));')
    done = set()
    for ci, (key, label, reading) in enumerate(cases):
        typ = key.title()
        if key not in done:
            done.add(key)
            # nothing stored for a sensor that has not been updated yet (other sensors may have been)
            L.append(f'  printf("pre {key} %d\\n", ekf.innovations<{typ}>().has_value() ? 1 : 0);')
        rn = sorted(reading)
        tag = f"{key}.{label}"
        L.append("  {")
        L.append(f"    {typ} rd({typ}Options{{" + ", ".join(f".{k} = {lit(reading[k])}" for k in rn) + "});")
        L.append(f"    StateAndVariance u = ekf.sensor_model({', '.join(sm_args + ['rd'])});")
        L.append(f'    printf("same {tag} %d\\n", (eqm(u.state.data, sv.state.data, {n}, 1) && eqm(u.covariance.data, sv.covariance.data, {n}, {n})) ? 1 : 0);')
        for a in AS:
            L.append(f'    printf("ustate {tag} {a.name} %.17g\\n", u.state.{a.name}());')
            for b in AS:
                L.append(f'    printf("ucov {tag} {a.name} {b.name} %.17g\\n", u.covariance.data(ix_{a.name}, ix_{b.name}));')
        L.append(f"    auto inn = ekf.innovations<{typ}>();")
        L.append('    if (!inn.has_value()) printf("noinnov ' + tag + '\\n");')
        for k in rn:
            L.append(f"    {{ int ir = find1({typ}({typ}Options{{.{k} = 1.0}}).data, {len(rn)}); if (inn.has_value()) printf(\"innov {tag} {k} %.17g\\n\", (*inn)(ir, 0)); }}")
        L.append("  }")
    L.append("  return 0; }")
    ok, exe, tmp = cppgen.build(header, source, "\n".join(L))
    if not ok:
        return [f"generated filter + by-name driver does not compile against the stand-in: {exe[-500:]}"], {"driver": "\n".join(L)}
    try:
        out = subprocess.run([exe], capture_output=True, text=True, timeout=60)
    finally:
        tmp.cleanup()
    if out.returncode != 0:
        return [f"compiled generated filter exited with {out.returncode}: {out.stderr[-300:]}"], {}
    cx = {}
    for ln in out.stdout.splitlines():
        p = ln.split()
        if p[0] == "noinnov":
            cx[("noinnov", p[1])] = 1.0
        else:
            cx[tuple(p[:-1])] = float(p[-1])
    problems = []
    for k, v in py_out.items():
        if k[0] == "margin":
            continue
        if k[0] == "same":
            if py_out[("margin", k[1])] < 1e-6:
                continue
            if cx.get(k) != v:
                problems.append(f"accept/reject decision for {k[1]}: python {'discards' if v else 'accepts'}, C++ {'discards' if cx.get(k) else 'accepts'} (filtering {k_edit})")
            continue
        if k[0] in ("ustate", "ucov") and py_out[("margin", k[1])] < 1e-6:
            continue
        w = cx.get(k)
        if w is None or not abs(w - v) <= TOL * max(1.0, abs(v)):
            problems.append(f"{' '.join(k)}: python {v!r}, generated C++ {w!r}")
    return problems, {"compared": len(py_out), "cases": [(k, l) for k, l, _ in cases]}
