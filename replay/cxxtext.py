"""Translation validation of the GENERATED C++ text, per program (C02(b), C08 SSA, parts of C13/C07).

The generated per-model function bodies are straight-line code
    double _t3 = <expr>;        jacobian(1, 0) = <expr>;        double s_x = <expr>;       return State({.s_x=s_x, ...});
whose expressions (sympy.ccode output: + - * /, pow, elementary functions, accessor calls) are parsed with python's ast (the
ccode expression grammar is a subset of python's) and evaluated to z3 reals.  Accessors are resolved through the accessor and
constructor definitions PARSED from the generated header/source: `name()` returns data(idx, 0), the Options constructor places
options.<name> at its position - so a value is always traced back to the symbol NAME it was given under.
A loop-free body over full-domain symbolic inputs proved equal to the expected expression is a complete proof for that program.
"""
from __future__ import annotations

import ast
import math
import re
from fractions import Fraction

import z3

from pvc.sympy2z3 import uf

FUNCS1 = {"sin", "cos", "tan", "exp", "log", "sqrt", "fabs", "asin", "acos", "atan", "sinh", "cosh", "tanh"}


class TextError(Exception):
    pass


class Layouts:
    """Accessor / constructor tables parsed from the generated header + source."""

    def __init__(self, header, source):
        self.accessor = {}  # struct -> {name: (i, j)}
        self.ctor = {}  # struct -> [names in coefficient order]
        self.options_fields = {}  # struct -> [names]
        self.sizes = {}
        for m in re.finditer(r"struct\s+(\w+)\s*(?::\s*public\s+\w+\s*)?\{(.*?)\n  \};", header, re.S):
            name, body = m.group(1), m.group(2)
            if name.endswith("Options"):
                self.options_fields[name] = re.findall(r"double\s+(\w+)\s*=\s*0\.0;", body)
                continue
            acc = {}
            for a in re.finditer(r"double&?\s+(\w+)\(\)\s*(?:const\s*)?\{\s*return data\((\d+),\s*(\d+)\);\s*\}", body):
                ij = (int(a.group(2)), int(a.group(3)))
                if a.group(1) in acc and acc[a.group(1)] != ij:
                    raise TextError(f"{name}::{a.group(1)}: const and non-const accessors disagree")
                acc[a.group(1)] = ij
            if acc:
                self.accessor[name] = acc
            rows = re.search(r"static constexpr size_t rows = (\d+);", body)
            if rows:
                self.sizes[name] = int(rows.group(1))
        for m in re.finditer(r"(\w+)::\1\(const (\w+)Options& options\)\s*:\s*data\(([^)]*)\)", source):
            items = [x.strip() for x in m.group(3).split(",") if x.strip()]
            names = []
            for it in items:
                mm = re.fullmatch(r"options\.(\w+)", it)
                if not mm:
                    raise TextError(f"constructor of {m.group(1)}: unexpected coefficient {it!r}")
                names.append(mm.group(1))
            self.ctor[m.group(1)] = names

    def symbol_at(self, struct, name):
        """Which NAME's value does accessor struct::name() return (through the Options constructor)?"""
        acc = self.accessor.get(struct, {})
        if name not in acc:
            raise TextError(f"{struct} has no accessor {name}()")
        i, j = acc[name]
        ctor = self.ctor.get(struct)
        if ctor is None or j != 0 or not (0 <= i < len(ctor)):
            raise TextError(f"{struct}::{name}() reads data({i},{j}) which no constructor coefficient fills")
        return ctor[i]

    def index_of(self, struct, name):
        return self.accessor[struct][name][0]

    def name_at_index(self, struct, idx):
        for n, (i, j) in self.accessor.get(struct, {}).items():
            if i == idx:
                return self.ctor[struct][i] if struct in self.ctor else n
        raise TextError(f"{struct}: no accessor for row {idx}")


def split_functions(source):
    """{qualified name: (args text, body text)} for the function definitions in the generated source."""
    out = {}
    for m in re.finditer(r"\n  (?:typename\s+)?([\w:<>]+)\s+([\w]+::[\w]+)\(([^)]*)\)\s*(const\s*)?\{\n(.*?)\n  \}", source, re.S):
        out[m.group(2)] = (m.group(3), m.group(5))
    return out


def c_to_py(text):
    """C expression text (as sympy's ccode prints it) -> python expression text: `c ? a : b` becomes `(a if c else b)`, && / || / ! become
    and / or / not.  Purely syntactic; operator precedence of everything else coincides for the printed subset."""
    text = " ".join(text.split())

    def split_top(sx, ch):
        depth = 0
        for i, c in enumerate(sx):
            if c == "(":
                depth += 1
            elif c == ")":
                depth -= 1
            elif c == ch and depth == 0:
                return i
        return -1

    def conv(sx):
        q = split_top(sx, "?")
        if q >= 0:
            # matching ':' at depth 0 (nested ternaries in the else-branch are right-associative; in the then-branch ccode parenthesises)
            depth, nest, j = 0, 0, -1
            for i in range(q + 1, len(sx)):
                c = sx[i]
                if c == "(":
                    depth += 1
                elif c == ")":
                    depth -= 1
                elif depth == 0 and c == "?":
                    nest += 1
                elif depth == 0 and c == ":":
                    if nest == 0:
                        j = i
                        break
                    nest -= 1
            if j < 0:
                raise TextError("ternary without ':'")
            return f"(({conv(sx[q + 1:j])}) if ({conv(sx[:q])}) else ({conv(sx[j + 1:])}))"
        out, i = [], 0
        while i < len(sx):
            if sx[i] == "(":
                depth, j = 1, i + 1
                while j < len(sx) and depth:
                    depth += sx[j] == "("
                    depth -= sx[j] == ")"
                    j += 1
                out.append("(" + conv(sx[i + 1 : j - 1]) + ")")
                i = j
            else:
                out.append(sx[i])
                i += 1
        r = "".join(out)
        r = r.replace("&&", " and ").replace("||", " or ")
        return re.sub(r"!(?!=)", " not ", r)

    return conv(text)


def parse_c(text):
    return ast.parse(c_to_py(text.strip()).strip(), mode="eval").body


class Evaluator:
    numeric = False  # numeric=True: leaves are python floats, functions are math.* (native confirmation of a symbolic disagreement)

    def __init__(self, layouts, objects, symvar):
        """objects: accessor base text -> struct name, e.g. {'state.state': 'State', 'calibration': 'Calibration'};
        symvar(name) -> z3 Real of the symbol called `name`."""
        self.L, self.objects, self.symvar = layouts, objects, symvar
        self.env = {}
        self.assigned = []
        self.problems = []

    def ev(self, node):
        if isinstance(node, ast.Constant):
            if isinstance(node.value, bool) or not isinstance(node.value, (int, float)):
                raise TextError(f"constant {node.value!r}")
            if self.numeric:
                return float(node.value)
            fr = Fraction(repr(node.value)) if isinstance(node.value, float) else Fraction(node.value)
            return z3.RealVal(f"{fr.numerator}/{fr.denominator}")
        if isinstance(node, ast.Name):
            if node.id == "dt":
                return self.symvar("dt")
            if node.id == "M_PI":
                return math.pi if self.numeric else z3.Real("pi")
            if node.id not in self.env:
                self.problems.append(f"{node.id} used before it is assigned")
                raise TextError(f"use of {node.id} before assignment")
            return self.env[node.id]
        if isinstance(node, ast.IfExp):
            c = self.ev(node.test)
            if self.numeric:
                return self.ev(node.body) if c else self.ev(node.orelse)
            return z3.If(c, self.ev(node.body), self.ev(node.orelse))
        if isinstance(node, ast.BoolOp):
            vs = [self.ev(v) for v in node.values]
            if self.numeric:
                return all(vs) if isinstance(node.op, ast.And) else any(vs)
            return z3.And(*vs) if isinstance(node.op, ast.And) else z3.Or(*vs)
        if isinstance(node, ast.UnaryOp) and isinstance(node.op, ast.Not):
            v = self.ev(node.operand)
            return (not v) if self.numeric else z3.Not(v)
        if isinstance(node, ast.Compare) and len(node.ops) == 1:
            a, b = self.ev(node.left), self.ev(node.comparators[0])
            op = node.ops[0]
            for kind, fn in ((ast.Eq, lambda: a == b), (ast.NotEq, lambda: a != b), (ast.Lt, lambda: a < b), (ast.LtE, lambda: a <= b), (ast.Gt, lambda: a > b), (ast.GtE, lambda: a >= b)):
                if isinstance(op, kind):
                    return fn()
            raise TextError(f"comparison {type(op).__name__}")
        if isinstance(node, ast.UnaryOp) and isinstance(node.op, ast.USub):
            return -self.ev(node.operand)
        if isinstance(node, ast.UnaryOp) and isinstance(node.op, ast.UAdd):
            return self.ev(node.operand)
        if isinstance(node, ast.BinOp):
            a, b = self.ev(node.left), self.ev(node.right)
            if not self.numeric:
                # C: a comparison used arithmetically is 0 / 1 (ccode prints sign(x) as ((x) > 0) - ((x) < 0))
                a = z3.If(a, z3.RealVal(1), z3.RealVal(0)) if z3.is_bool(a) else a
                b = z3.If(b, z3.RealVal(1), z3.RealVal(0)) if z3.is_bool(b) else b
            if isinstance(node.op, ast.Add):
                return a + b
            if isinstance(node.op, ast.Sub):
                return a - b
            if isinstance(node.op, ast.Mult):
                return a * b
            if isinstance(node.op, ast.Div):
                # C: int/int would truncate; ccode always prints float literals for rationals - checked here
                if isinstance(node.left, ast.Constant) and isinstance(node.right, ast.Constant) and isinstance(node.left.value, int) and isinstance(node.right.value, int):
                    raise TextError("integer / integer in generated C++ (truncating division)")
                return a / b
            raise TextError(f"operator {type(node.op).__name__}")
        if isinstance(node, ast.Call):
            f = node.func
            if isinstance(f, ast.Name):
                args = [self.ev(a) for a in node.args]
                if self.numeric:
                    fn = {"fabs": abs, "pow": math.pow}.get(f.id) or getattr(math, f.id, None)
                    if fn is None:
                        raise TextError(f"call of {f.id}")
                    return fn(*args)
                if f.id == "pow" and len(args) == 2:
                    e = node.args[1]
                    neg = isinstance(e, ast.UnaryOp) and isinstance(e.op, ast.USub)
                    ev = e.operand if neg else e
                    if isinstance(ev, ast.Constant) and float(ev.value) == int(ev.value) and 0 <= int(ev.value) <= 12:
                        n = int(ev.value)
                        r = z3.RealVal(1)
                        for _ in range(n):
                            r = r * args[0]
                        return 1 / r if neg else r
                    if isinstance(ev, ast.BinOp) and isinstance(ev.op, ast.Div):
                        num, den = ev.left, ev.right
                        if isinstance(num, ast.Constant) and isinstance(den, ast.Constant) and float(num.value) == 1.0 and float(den.value) == 2.0:
                            r = uf("sqrt")(args[0])
                            return 1 / r if neg else r
                    return uf("pow", 2)(args[0], args[1])
                if f.id == "fmod" and len(args) == 2 and not self.numeric:
                    # the idiom fmod(fmod(a, b) + b, b) IS the floored modulo a - b*floor(a/b) for b != 0 (D-fmod, a standard identity):
                    # recognised syntactically so that it meets sympy's Mod in the same form
                    a0 = node.args[0]
                    if isinstance(a0, ast.BinOp) and isinstance(a0.op, ast.Add) and isinstance(a0.left, ast.Call) and isinstance(a0.left.func, ast.Name) and a0.left.func.id == "fmod" and len(a0.left.args) == 2 and ast.dump(a0.left.args[1]) == ast.dump(a0.right) == ast.dump(node.args[1]):
                        a, b = self.ev(a0.left.args[0]), args[1]
                        return a - b * z3.ToReal(z3.ToInt(a / b))
                if f.id == "fmod" and len(args) == 2:
                    # C: fmod(a, b) = a - b * trunc(a / b)  (result has the sign of the DIVIDEND)
                    q = args[0] / args[1]
                    tr = z3.If(q >= 0, z3.ToReal(z3.ToInt(q)), -z3.ToReal(z3.ToInt(-q)))
                    return args[0] - args[1] * tr
                if f.id in ("floor", "ceil") and len(args) == 1:
                    fl = z3.ToReal(z3.ToInt(args[0]))
                    return fl if f.id == "floor" else -z3.ToReal(z3.ToInt(-args[0]))
                if f.id == "fabs" and len(args) == 1:
                    return z3.If(args[0] >= 0, args[0], -args[0])  # |x| by definition (the expected side defines Abs the same way)
                if f.id in FUNCS1 and len(args) == 1:
                    return uf(f.id)(args[0])
                raise TextError(f"call of {f.id}")
            if isinstance(f, ast.Attribute) and not node.args:
                base = ast.unparse(f.value)
                if base not in self.objects:
                    raise TextError(f"accessor on unknown object {base}")
                return self.symvar(self.L.symbol_at(self.objects[base], f.attr))
            raise TextError("call expression")
        raise TextError(f"expression node {type(node).__name__}")

    def run(self, body):
        """Execute the straight-line body; returns {'cells': {(target,i,j): term}, 'scalars': {name: term}, 'ret': text}."""
        cells, ret = {}, None
        stmts = [s.strip() for s in re.split(r";\s*\n|;\s*$", body) if s.strip()]
        for st in stmts:
            st = st.rstrip(";").strip()
            if not st or st.startswith("//"):
                continue
            if st.startswith("return"):
                ret = st[len("return") :].strip()
                continue
            m = re.fullmatch(r"double\s+(\w+)\s*=\s*(.+)", st, re.S)
            if m:
                name = m.group(1)
                if name in self.env:
                    self.problems.append(f"{name} assigned more than once")
                self.env[name] = self.ev(parse_c(m.group(2)))
                self.assigned.append(name)
                continue
            m = re.fullmatch(r"(\w+)\((\d+),\s*(\d+)\)\s*=\s*(.+)", st, re.S)
            if m:
                cells[(m.group(1), int(m.group(2)), int(m.group(3)))] = self.ev(parse_c(m.group(4)))
                continue
            if re.fullmatch(r"[\w:<>, ]+\s+\w+", st):
                continue  # declaration `T jacobian`
            raise TextError(f"unrecognised statement {st[:80]!r}")
        return cells, ret
