"""Generate C++ with the REAL generator (py/formak/cpp.py + ast_fragments + templates) for a scenario, and compile / run it
against the vendored Eigen stand-in."""
from __future__ import annotations

import contextlib
import io
import os
import subprocess
import tempfile

from replay.native import REPO, repo_import

STANDIN = os.path.join(os.path.dirname(os.path.abspath(__file__)), "standin")


@contextlib.contextmanager
def repo_cwd():
    old = os.getcwd()
    os.chdir(REPO)  # FromFileTemplate loads py/formak/templates relative to the current directory
    try:
        yield
    finally:
        os.chdir(old)


def generate(sc, ekf=True, cse=True, innovation_filtering=5.0, max_dt_sec=0.1, container="set", namespace="generated"):
    """Returns (header_text, source_text, generator)."""
    cpp = repo_import("formak.cpp")
    ui = repo_import("formak.ui")
    buf = io.StringIO()
    with repo_cwd(), contextlib.redirect_stdout(buf):
        model = sc.ui_model(ui, container)
        cfg = cpp.Config(common_subexpression_elimination=cse, innovation_filtering=innovation_filtering, max_dt_sec=max_dt_sec)
        if ekf:
            gen = cpp._generate_ekf_function_bodies("x/generated/formak/model.h", namespace, model, dict(sc.process_noise), {k: dict(v) for k, v in sc.sensor_models.items()}, {k: dict(v) for k, v in sc.sensor_noises.items()}, dict(sc.calibration_map), cfg)
        else:
            gen = cpp._generate_model_function_bodies("x/generated/formak/model.h", namespace, model, dict(sc.calibration_map), cfg)
        header = "\n".join(cpp.header_from_ast(generator=gen))
        source = "\n".join(cpp.source_from_ast(generator=gen))
    return header, source, gen


def build(header, source, driver_src, extra_flags=(), timeout=300):
    """Compile header+source+driver against the stand-in; returns (ok, exe_dir | compiler output, tmpdir handle)."""
    d = tempfile.TemporaryDirectory(prefix="formak-cxxgen-")
    os.makedirs(os.path.join(d.name, "formak"), exist_ok=True)
    open(os.path.join(d.name, "formak", "model.h"), "w").write(header)
    open(os.path.join(d.name, "model.cpp"), "w").write(source)
    open(os.path.join(d.name, "driver.cpp"), "w").write(driver_src)
    cmd = ["g++", "-std=c++20", "-O0", "-w", "-I", d.name, "-I", STANDIN, "-I", os.path.join(REPO, "cpp/include"), "-I", os.path.join(REPO, "cpp/runtime/include"), *extra_flags, os.path.join(d.name, "model.cpp"), os.path.join(d.name, "driver.cpp"), "-o", os.path.join(d.name, "drv")]
    c = subprocess.run(cmd, capture_output=True, text=True, timeout=timeout)
    if c.returncode != 0:
        return False, c.stderr[-3000:], d
    return True, os.path.join(d.name, "drv"), d


def syntax_check(header, source, extra_src="", timeout=300):
    with tempfile.TemporaryDirectory(prefix="formak-cxxgen-") as d:
        os.makedirs(os.path.join(d, "formak"), exist_ok=True)
        open(os.path.join(d, "formak", "model.h"), "w").write(header)
        open(os.path.join(d, "model.cpp"), "w").write(source + "\n" + extra_src)
        c = subprocess.run(["g++", "-std=c++20", "-fsyntax-only", "-w", "-I", d, "-I", STANDIN, "-I", os.path.join(REPO, "cpp/include"), "-I", os.path.join(REPO, "cpp/runtime/include"), os.path.join(d, "model.cpp")], capture_output=True, text=True, timeout=timeout)
        return c.returncode == 0, c.stderr[-3000:]
