"""Function zoo (bounded stand-in, C08 / C02 / C03): one model per elementary-function FORM, on symbols with and without sympy assumptions.

For each form the real Python filter is compiled with CSE on and off and its state update, process / control / sensor Jacobians are
compared with the exact oracle (the partial derivatives of the REAL functions); optionally the generated C++ is compiled and compared
with the Python filter.  A definition a back end refuses LOUDLY (printer cannot print DiracDelta, derivative without closed form, ...)
is not a problem here - only a value that differs, or a back end that accepts with one CSE setting and refuses with the other.

Why it exists: defect D12 (d|v|/dv zeroed by cse + simplify) lived in a function form no corpus contained, behind dependency contracts
(D-diff, D-cse, D-simp) that were true for every program the corpus did contain.
"""
from __future__ import annotations

import sympy
from sympy import Abs, E, Max, Min, Piecewise, Pow, Rational, acos, acosh, acot, asec, asin, asinh, atan, atan2, atanh, cbrt, cosh, cot, coth, csc, erf, erfc, exp, gamma, log, loggamma, pi, root, sec, sech, sinc, sinh, sqrt, tan, tanh

from replay import scenarios

FORMS = {
    "abs": lambda a, b: Abs(a) * b,
    "abs_sqrt": lambda a, b: sqrt(Abs(a)) * b,
    "abs_pow": lambda a, b: Abs(a) ** 3 * b,
    "nested_abs": lambda a, b: Abs(a - b) * Abs(a + b),
    "abs_form_with_pole": lambda a, b: sqrt(a**2) * a - 1 / a**3 + b / a**2 + sqrt((a - b) ** 2),
    "abs_with_pole": lambda a, b: Abs(a) * b + b / a**2,
    "piecewise": lambda a, b: Piecewise((a * b, a > 0), (a - b, True)),
    "max": lambda a, b: Max(a, b) * a,
    "min": lambda a, b: Min(a, 2 * b),
    "atan2": lambda a, b: atan2(a, b),
    "hyp": lambda a, b: sqrt(a**2 + b**2),
    "exp": lambda a, b: exp(a / 4) * b,
    "log": lambda a, b: log(a**2 + 1) * b,
    "tanh": lambda a, b: tanh(a) * b + sinh(b / 4) + cosh(a / 4),
    "asinh": lambda a, b: asinh(a) * b,
    "acos": lambda a, b: acos(a / 10) * b + asin(b / 10),
    "sec": lambda a, b: sec(a) * b,
    "cot": lambda a, b: cot(a + 3) * b + csc(b + 3),
    "sinc": lambda a, b: sinc(a) * b,
    "erf": lambda a, b: erf(a) * b,
    "pow32": lambda a, b: (a**2 + 1) ** Rational(3, 2) * b,
    "cbrt": lambda a, b: cbrt(a**2 + 1) * b,
    "root": lambda a, b: root(b**2 + 1, 5) * a,
    "twopow": lambda a, b: Pow(2, a) * b,
    "powsym": lambda a, b: (a**2 + 1) ** b,
    "neg_int_pow": lambda a, b: b / a**3 + a**-2,
    "tan": lambda a, b: tan(a / 4) * b + atan(a * b),
    "exp_neg_sq": lambda a, b: exp(-(a**2)) * b,
    "acot_asec": lambda a, b: acot(a) * b + asec(b * 2 + 5),
    "coth_sech": lambda a, b: coth(a + 4) * b + sech(b),
    "acosh_atanh": lambda a, b: acosh(a + 4) * b + atanh(b / 4),
    "erfc": lambda a, b: erfc(a) * b,
    "gamma": lambda a, b: gamma(a + 4) * b + loggamma(b + 4),
    "log_base": lambda a, b: log(a + 4, 2) * b + log(b + 4, 10),
    "e_pow": lambda a, b: E**a * b + exp(pi * b / 8),
    "min3": lambda a, b: Min(a, b, 1) * a + Max(a, b, -1),
    "nested_piecewise": lambda a, b: Piecewise((a, a < 0), (a**2 * b, a < 1), (b, True)),
}
QUICK = ("abs", "abs_sqrt", "abs_form_with_pole", "piecewise", "max", "atan2", "sec", "neg_int_pow")


def scenario(name, assume, seed=3):
    f = FORMS[name]
    sc = scenarios.Scenario(2, 1, 1, [2], seed=seed, assumptions=assume)
    sc.magnitude = True  # points avoid 0 (kinks of |.|, poles of 1/a)
    a, b = sc.state[0], sc.state[1]
    u = sc.control[0]
    sc.state_model[a] = sc.state_model[a] + f(a, b) + f(u, a)
    sm = sc.sensor_models[sc.sensor_names[0]]
    r0 = sorted(sm)[0]
    sm[r0] = sm[r0] + f(b, a)
    return sc


def _cmp(problems, tag, got, want, i, j):
    w = complex(sympy.N(want))
    if abs(w.imag) > 1e-12:
        return  # outside the real domain of the form: nothing promised
    if not abs(float(got) - w.real) <= 1e-7 * max(1.0, abs(w.real)):
        problems.append(f"{tag}[{i},{j}] = {float(got)!r}, exact {w.real!r}")


def python_side(sc, cse, seed=3):
    """-> ('ok' | 'refused: ...' , problems)"""
    import warnings

    with warnings.catch_warnings():
        warnings.simplefilter("ignore")  # the library's pre-flight call evaluates sensor models at the zero state (1/0 -> inf with a warning)
        return _python_side(sc, cse, seed)


def _python_side(sc, cse, seed):
    import numpy as np

    try:
        py, ekf = scenarios.build_ekf(sc, config={"common_subexpression_elimination": cse})
    except Exception as e:
        return f"refused: {type(e).__name__}", []
    pt = sc.point(seed)
    sub = {k: sympy.Rational(v.numerator, v.denominator) for k, v in pt.items()}
    AS = sorted(sc.state, key=lambda s: s.name)
    AU = sorted(sc.control, key=lambda s: s.name)
    F = sympy.Matrix([sc.state_model[s] for s in AS])
    problems = []
    try:
        state, ctl = scenarios.named_state(ekf, sc, pt), scenarios.named_control(ekf, sc, pt)
        dt = float(pt[sc.dt])
        for tag, J, X in (("process_jacobian", ekf.process_jacobian(dt, state, ctl), AS), ("control_jacobian", ekf.control_jacobian(dt, state, ctl), AU)):
            Jx = scenarios.jacobian_at(F, X, sub)
            for i in range(Jx.shape[0]):
                for j in range(Jx.shape[1]):
                    _cmp(problems, tag, J[i, j], Jx[i, j], i, j)
        for key, sm in sc.sensor_models.items():
            rn = sorted(sm)
            H = ekf.sensor_jacobian(key, state)
            Hx = scenarios.jacobian_at(sympy.Matrix([sm[r] for r in rn]), AS, sub)
            for i in range(Hx.shape[0]):
                for j in range(Hx.shape[1]):
                    _cmp(problems, f"sensor_jacobian({key})", H[i, j], Hx[i, j], i, j)
        r = ekf.process_model(dt, state, ekf.Covariance.from_data(np.eye(sc.n)), ctl)
        Fx = F.subs(sub)
        for i in range(sc.n):
            _cmp(problems, "state", r.state.data[i, 0], Fx[i, 0], i, 0)
    except Exception as e:
        return f"refused at run time: {type(e).__name__}", []
    return "ok", problems


def run_form(name, assume, cxx=False, seed=3):
    """-> (problems, summary)"""
    sc = scenario(name, assume, seed)
    problems, summary = [], {}
    for cse in (True, False):
        st, pr = python_side(sc, cse, seed)
        summary[f"python cse={cse}"] = st
        problems += [f"form {name} ({'real/positive' if assume else 'plain'} symbols), python, CSE {'on' if cse else 'off'}: {p}" for p in pr]
    if (summary["python cse=True"] == "ok") != (summary["python cse=False"] == "ok"):
        problems.append(f"form {name} ({'real/positive' if assume else 'plain'} symbols): accepted with one CSE setting only ({summary})")
    if cxx and summary["python cse=True"] == "ok":
        from replay import cxxcompare

        import warnings

        for cse in (True, False):
            with warnings.catch_warnings():
                warnings.simplefilter("ignore")
                pr, _ = cxxcompare.compare(sc, cse=cse, seed=seed)
            loud = bool(pr) and ("raised" in pr[0] or "compil" in pr[0])
            summary[f"c++ cse={cse}"] = "ok" if not pr else ("refused" if loud else "differs")
            if pr and not loud:
                problems.append(f"form {name} ({'real/positive' if assume else 'plain'} symbols), C++ vs python, CSE {'on' if cse else 'off'}: {pr[0]}")
            if loud:
                summary[f"c++ cse={cse} reason"] = pr[0][:160]
        if (summary["c++ cse=True"] == "refused") != (summary["c++ cse=False"] == "refused"):
            problems.append(f"form {name} ({'real/positive' if assume else 'plain'} symbols): the C++ generator accepts it with one CSE setting only ({summary})")
    return problems, summary, sc
