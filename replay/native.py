"""Native replay helpers: import the REAL formak package from the repository working tree."""
import importlib
import os
import sys

REPO = os.environ.get("FORMAK_REPO", "/repo")


def repo_import(modname):
    p = os.path.join(REPO, "py")
    if p not in sys.path:
        sys.path.insert(0, p)
    return importlib.import_module(modname)


class RecordingImpl:
    """Stand-in wrapped filter that records every call it receives (runtime.py replays).
    The state is the list of calls applied so far, so order and arguments are observable."""

    class _Cfg:
        def __init__(self, max_dt_sec):
            self.max_dt_sec = max_dt_sec

    def __init__(self, max_dt_sec, control_size=0):
        self.config = self._Cfg(max_dt_sec)
        self.control_size = control_size
        self.calls = []

    def process_model(self, dt, state, covariance, control=None):
        self.calls.append(("process_model", dt))
        return (state + (("pm", dt),), covariance + (("pm", dt),))

    def sensor_model(self, state, covariance, *, sensor_key, sensor_reading):
        if sensor_key == "missing":
            raise KeyError(sensor_key)  # like the real filter for a sensor it does not have
        self.calls.append(("sensor_model", sensor_key, sensor_reading))
        return (state + (("sm", sensor_key, sensor_reading),), covariance + (("sm", sensor_key, sensor_reading),))

    def make_reading(self, key, *, data=None, **kwargs):
        if key == "missing":
            raise KeyError(key)
        return ("reading", key, tuple(sorted(kwargs.items())))
