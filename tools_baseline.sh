#!/bin/bash
# Runs the repository's test suite (guard off: there are no hooks) and compares with BASELINE.json's stable_pass list.
cd /repo && /venv/bin/python -m pytest -ra -q -p no:cacheprovider --timeout=900 --continue-on-collection-errors --junitxml=/tmp/formak_baseline.xml > /tmp/formak_baseline.log 2>&1
/venv/bin/python - <<'PY'
import json, xml.etree.ElementTree as ET
base = json.load(open('/root/.vp/BASELINE.json'))
t = ET.parse('/tmp/formak_baseline.xml')
passed=set()
for tc in t.iter('testcase'):
    name = f"{tc.get('classname')}::{tc.get('name')}"
    if not any(ch.tag in ('failure','error','skipped') for ch in tc):
        passed.add(name)
missing = [n for n in base['stable_pass'] if n not in passed]
print("baseline stable_pass:", len(base['stable_pass']), "passing now:", len([n for n in base['stable_pass'] if n in passed]), "missing:", missing)
print("newly passing (were always_fail):", len([n for n in base['always_fail'] if n in passed]))
PY
