/-
C09, exact-arithmetic half: the Kalman prediction and update keep a covariance positive semidefinite.
These are the facts `psd_axioms` (contracts/pyekf.py) gives to the SMT solver as quantified axioms over the
uninterpreted matrix algebra; here they are proved from Mathlib for real matrices of any finite dimensions.
-/
import Mathlib

open Matrix

set_option linter.unusedSectionVars false

variable {n m k : Type*} [Fintype n] [Fintype m] [Fintype k] [DecidableEq n] [DecidableEq m] [DecidableEq k]

/-- prediction: `G P Gᵀ + V M Vᵀ` is PSD when `P` and `M` are. -/
theorem predict_preserves_psd (P : Matrix n n ℝ) (M : Matrix k k ℝ) (G : Matrix n n ℝ) (V : Matrix n k ℝ)
    (hP : P.PosSemidef) (hM : M.PosSemidef) : (G * P * Gᵀ + V * M * Vᵀ).PosSemidef := by
  have h1 := hP.mul_mul_conjTranspose_same G
  have h2 := hM.mul_mul_conjTranspose_same V
  simp only [conjTranspose_eq_transpose_of_trivial] at h1 h2
  exact h1.add h2

/-- the innovation covariance `H P Hᵀ + Q` is PSD. -/
theorem innovation_covariance_psd (P : Matrix n n ℝ) (H : Matrix m n ℝ) (Q : Matrix m m ℝ)
    (hP : P.PosSemidef) (hQ : Q.PosSemidef) : (H * P * Hᵀ + Q).PosSemidef := by
  have h1 := hP.mul_mul_conjTranspose_same H
  simp only [conjTranspose_eq_transpose_of_trivial] at h1
  exact h1.add hQ

/-- Joseph form: with `K = P Hᵀ S⁻¹`, `S = H P Hᵀ + Q` invertible,
    `P - K H P = (1 - K H) P (1 - K H)ᵀ + K Q Kᵀ`. -/
theorem joseph_form (P : Matrix n n ℝ) (H : Matrix m n ℝ) (Q : Matrix m m ℝ)
    (hS : IsUnit (H * P * Hᵀ + Q).det) :
    P - (P * Hᵀ * (H * P * Hᵀ + Q)⁻¹) * H * P
      = (1 - (P * Hᵀ * (H * P * Hᵀ + Q)⁻¹) * H) * P * (1 - (P * Hᵀ * (H * P * Hᵀ + Q)⁻¹) * H)ᵀ
        + (P * Hᵀ * (H * P * Hᵀ + Q)⁻¹) * Q * (P * Hᵀ * (H * P * Hᵀ + Q)⁻¹)ᵀ := by
  set S := H * P * Hᵀ + Q with hSdef
  set K := P * Hᵀ * S⁻¹ with hK
  have hKS : K * S = P * Hᵀ := by
    rw [hK, Matrix.mul_assoc, Matrix.nonsing_inv_mul _ hS, Matrix.mul_one]
  have key : K * H * P * Hᵀ * Kᵀ + K * Q * Kᵀ = P * Hᵀ * Kᵀ := by
    have : K * S * Kᵀ = P * Hᵀ * Kᵀ := by rw [hKS]
    rw [hSdef] at this
    rw [← this]
    simp only [Matrix.mul_add, Matrix.add_mul, Matrix.mul_assoc]
  rw [Matrix.transpose_sub, Matrix.transpose_one, Matrix.transpose_mul]
  have expand : (1 - K * H) * P * (1 - Hᵀ * Kᵀ)
      = P - K * H * P - P * Hᵀ * Kᵀ + K * H * P * Hᵀ * Kᵀ := by
    simp only [Matrix.sub_mul, Matrix.mul_sub, Matrix.one_mul, Matrix.mul_one, Matrix.mul_assoc]
    abel
  rw [expand, add_assoc, key]
  abel

/-- update: `P - K H P` is PSD when `P`, `Q` are PSD and `S` is invertible. -/
theorem update_preserves_psd (P : Matrix n n ℝ) (H : Matrix m n ℝ) (Q : Matrix m m ℝ)
    (hP : P.PosSemidef) (hQ : Q.PosSemidef) (hS : IsUnit (H * P * Hᵀ + Q).det) :
    (P - (P * Hᵀ * (H * P * Hᵀ + Q)⁻¹) * H * P).PosSemidef := by
  rw [joseph_form P H Q hS]
  have h1 := hP.mul_mul_conjTranspose_same (1 - (P * Hᵀ * (H * P * Hᵀ + Q)⁻¹) * H)
  have h2 := hQ.mul_mul_conjTranspose_same (P * Hᵀ * (H * P * Hᵀ + Q)⁻¹)
  simp only [conjTranspose_eq_transpose_of_trivial] at h1 h2
  exact h1.add h2

/-- the posterior never exceeds the prior: `P - (P - K H P) = K H P = (H P)ᵀ S⁻¹ (H P)` is PSD when `S` is positive definite. -/
theorem posterior_le_prior (P : Matrix n n ℝ) (H : Matrix m n ℝ) (Q : Matrix m m ℝ)
    (hP : P.PosSemidef) (hS : (H * P * Hᵀ + Q).PosDef) :
    (P - (P - (P * Hᵀ * (H * P * Hᵀ + Q)⁻¹) * H * P)).PosSemidef := by
  have hPt : Pᵀ = P := by
    have h := hP.isHermitian
    simpa [Matrix.IsHermitian, conjTranspose_eq_transpose_of_trivial] using h
  have hform : P - (P - (P * Hᵀ * (H * P * Hᵀ + Q)⁻¹) * H * P)
      = (H * P)ᵀ * (H * P * Hᵀ + Q)⁻¹ * (H * P) := by
    rw [Matrix.transpose_mul, hPt]
    simp only [Matrix.mul_assoc]
    abel
  rw [hform]
  have h := hS.inv.posSemidef.conjTranspose_mul_mul_same (H * P)
  simpa [conjTranspose_eq_transpose_of_trivial] using h

#print axioms predict_preserves_psd
#print axioms update_preserves_psd
#print axioms posterior_le_prior
