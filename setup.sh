#!/bin/bash
# Builds /verif/.venv offline: python 3.12 (same interpreter as /venv, which has the
# repo's third-party deps) + z3-solver/cvc5/lark/jsonschema from the offline wheelhouse.
set -euo pipefail
cd "$(dirname "$0")"
export PIP_NO_INDEX=1
if [ ! -x .venv/bin/python ] || ! .venv/bin/python -c "import z3, cvc5, jsonschema, sympy, numpy" 2>/dev/null; then
  rm -rf .venv
  /venv/bin/python -m venv .venv
  .venv/bin/pip install -q --no-index --find-links /opt/veriftools/wheels z3-solver cvc5 lark jsonschema
  echo "import site; site.addsitedir('/venv/lib/python3.12/site-packages')" \
    > .venv/lib/python3.12/site-packages/zz_repo_deps.pth
fi
.venv/bin/python -c "import z3, cvc5, jsonschema, sympy, numpy, scipy, sklearn; print('verif venv ok: z3', z3.get_version_string())"
mkdir -p evidence replays
